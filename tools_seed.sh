#!/bin/bash
# usage: tools_seed.sh <mutant-out-dir> <seed-id> <props...>
# Confirms a seeded change in a scratch worktree, then runs the named checks against /repo with it applied.
set -u
export GOFLAGS=-mod=mod GOPROXY=off GOSUMDB=off GOTOOLCHAIN=local
out=$1; id=$2; shift 2
wt=/tmp/seedwt_$id
git -C /repo worktree add -q --detach $wt HEAD || exit 2
demo_dir=$(python3 -c "import json;print(json.load(open('$out/meta.json')).get('demo_dir','tds'))")
res="{}"
( cd $wt && git apply $out/patch.diff ) || { echo "patch does not apply"; git -C /repo worktree remove --force $wt; exit 2; }
( cd $wt && go build ./... ) && b=ok || b=fail
( cd $wt && go test -vet=off -count=1 ./... >/tmp/seed_$id.suite 2>&1 ) && s=ok || s=fail
cp $out/demo_test.go $wt/$demo_dir/zz_demo_test.go
( cd $wt && go test -vet=off -count=1 -run 'Demo|Mut|C[0-9][0-9]' ./$demo_dir >/tmp/seed_$id.demo1 2>&1 ) && d1=pass || d1=fail
( cd $wt && git checkout -q -- . )
( cd $wt && go test -vet=off -count=1 -run 'Demo|Mut|C[0-9][0-9]' ./$demo_dir >/tmp/seed_$id.demo0 2>&1 ) && d0=pass || d0=fail
git -C /repo worktree remove --force $wt
echo "seed $id: build=$b suite=$s demo_with_change=$d1 demo_without=$d0"
[ "$b" = ok ] && [ "$s" = ok ] && [ "$d1" = fail ] && [ "$d0" = pass ] || { echo "NOT CONFIRMED"; exit 3; }
mkdir -p /verif/seeded/$id && cp $out/patch.diff $out/demo_test.go $out/meta.json /verif/seeded/$id/
git -C /repo apply $out/patch.diff || exit 2
for p in "$@"; do
  ( cd /verif && timeout 1500 ./check $p quick > /tmp/seed_$id.$p.out 2>&1 ); rc=$?
  v=$(grep -c '^VIOLATION' /tmp/seed_$id.$p.out)
  echo "  check $p: exit=$rc violations=$v $(grep -m1 'INCONCLUSIVE' /tmp/seed_$id.$p.out | cut -c1-160)"
done
git -C /repo checkout -q -- .
git -C /repo status --short | head -3
