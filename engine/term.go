package main

import (
	"fmt"
	"math/big"
	"strings"
)

// Sorts: w>0 bit-vector of width w; w==0 Bool; w==-1 Int; w==-2 Real.
const (
	SortInt  = -1
	SortReal = -2
)

type Term struct {
	op   string
	args []*Term
	w    int
	c    *big.Int // constant value (bv/int) ; for bool consts c=0/1
	name string   // var / uf name / extract params
	id   int
	lo   *big.Int // Int sort: known interval (nil = unknown)
	hi   *big.Int
}

type tkey struct {
	op   string
	w    int
	name string
	c    string
	n    int
	a    [3]int
}

var (
	termTab = map[tkey]*Term{}
	termSeq = 0
)

func mk(op string, w int, name string, c *big.Int, args ...*Term) *Term {
	k := tkey{op: op, w: w, name: name, n: len(args)}
	if c != nil {
		if c.IsInt64() {
			k.a[2] = int(c.Int64())
			k.c = "i"
		} else {
			k.c = c.String()
		}
	}
	if len(args) > 3 {
		panic("mk: too many args")
	}
	for i, a := range args {
		if c != nil && i == 2 {
			panic("mk: const with 3 args")
		}
		k.a[i] = a.id
	}
	if t, ok := termTab[k]; ok {
		return t
	}
	termSeq++
	t := &Term{op: op, args: args, w: w, c: c, name: name, id: termSeq}
	termTab[k] = t
	return t
}

func mask(w int) *big.Int {
	return new(big.Int).Sub(new(big.Int).Lsh(big.NewInt(1), uint(w)), big.NewInt(1))
}
func norm(v *big.Int, w int) *big.Int {
	return new(big.Int).And(v, mask(w))
}
func BV(w int, v int64) *Term       { return BVbig(w, big.NewInt(v)) }
func BVbig(w int, v *big.Int) *Term { return mk("const", w, "", norm(v, w)) }
func Bool(b bool) *Term {
	if b {
		return mk("true", 0, "", nil)
	}
	return mk("false", 0, "", nil)
}
func Var(name string, w int) *Term { return mk("var", w, name, nil) }
func (t *Term) IsConst() bool      { return t.op == "const" || t.op == "true" || t.op == "false" }
func (t *Term) IsTrue() bool       { return t.op == "true" }
func (t *Term) IsFalse() bool      { return t.op == "false" }
func (t *Term) Uint() uint64       { return t.c.Uint64() }
func (t *Term) Signed() *big.Int {
	if t.w < 0 {
		return new(big.Int).Set(t.c)
	}
	if t.c.Bit(t.w-1) == 1 {
		return new(big.Int).Sub(t.c, new(big.Int).Lsh(big.NewInt(1), uint(t.w)))
	}
	return new(big.Int).Set(t.c)
}
func (t *Term) Int() int64 { return t.Signed().Int64() }

func Not(a *Term) *Term {
	switch a.op {
	case "true":
		return Bool(false)
	case "false":
		return Bool(true)
	case "not":
		return a.args[0]
	}
	return mk("not", 0, "", nil, a)
}
func And(a, b *Term) *Term {
	if a.IsFalse() || b.IsFalse() {
		return Bool(false)
	}
	if a.IsTrue() {
		return b
	}
	if b.IsTrue() || a == b {
		return a
	}
	return mk("and", 0, "", nil, a, b)
}
func Or(a, b *Term) *Term {
	if a.IsTrue() || b.IsTrue() {
		return Bool(true)
	}
	if a.IsFalse() {
		return b
	}
	if b.IsFalse() || a == b {
		return a
	}
	return mk("or", 0, "", nil, a, b)
}
func Ite(c, a, b *Term) *Term {
	if c.IsTrue() {
		return a
	}
	if c.IsFalse() {
		return b
	}
	if a == b {
		return a
	}
	if a.w == 0 {
		return Or(And(c, a), And(Not(c), b))
	}
	if a.w != b.w {
		panic(fmt.Sprintf("ite sort mismatch %d %d", a.w, b.w))
	}
	r := mk("ite", a.w, "", nil, c, a, b)
	if a.w == SortInt {
		al, ah := a.bounds()
		bl, bh := b.bounds()
		if al != nil && ah != nil && bl != nil && bh != nil {
			setBounds(r, minBig(al, bl), maxBig(ah, bh))
		}
	}
	return r
}
// unsignedInt returns the Int term a bit-vector term equals as an unsigned
// number, when that is known without a modulo: constants, and int2bv of a term
// whose interval fits the width.
func unsignedInt(t *Term) (*Term, bool, bool) {
	if t.w <= 0 {
		return nil, false, false
	}
	if t.IsConst() {
		return IntBig(t.c), true, false
	}
	if t.op == "int2bv" {
		lo, hi := t.args[0].bounds()
		if lo != nil && hi != nil && lo.Sign() >= 0 && hi.Cmp(new(big.Int).Lsh(big.NewInt(1), uint(t.w))) < 0 {
			return t.args[0], true, true
		}
	}
	return nil, false, false
}

func Eq(a, b *Term) *Term {
	if a == b {
		return Bool(true)
	}
	if a.w > 0 && a.w == b.w {
		if x, ok1, c1 := unsignedInt(a); ok1 {
			if y, ok2, c2 := unsignedInt(b); ok2 && (c1 || c2) {
				return Eq(x, y)
			}
		}
		// bit-vector = int2bv(x): compare as integers (x mod 2^w), which keeps the
		// query in linear integer arithmetic
		for k := 0; k < 2; k++ {
			p, q := a, b
			if k == 1 {
				p, q = b, a
			}
			if p.op == "int2bv" && q.op != "int2bv" && !q.IsConst() {
				return Eq(BV2Int(q, false), BV2Int(p, false))
			}
		}
		if a.op == "int2bv" && b.op == "int2bv" {
			return Eq(BV2Int(a, false), BV2Int(b, false))
		}
	}
	if (a.w == SortInt) != (b.w == SortInt) {
		a, b = coerceInt(a), coerceInt(b)
	}
	if a.w == SortInt && !(a.IsConst() && b.IsConst()) {
		al, ah := a.bounds()
		bl, bh := b.bounds()
		if (ah != nil && bl != nil && ah.Cmp(bl) < 0) || (al != nil && bh != nil && al.Cmp(bh) > 0) {
			return Bool(false)
		}
	}
	if a.IsConst() && b.IsConst() {
		if a.w == 0 {
			return Bool(a.op == b.op)
		}
		return Bool(a.c.Cmp(b.c) == 0)
	}
	if a.w == 0 {
		return Or(And(a, b), And(Not(a), Not(b)))
	}
	if a.id > b.id {
		a, b = b, a
	}
	return mk("=", 0, "", nil, a, b)
}

// bin builds a bit-vector binary op with constant folding.
func Bin(op string, a, b *Term) *Term {
	if a.w == SortInt || b.w == SortInt {
		a, b = coerceInt(a), coerceInt(b)
		switch op {
		case "bvadd":
			return IArith("+", a, b)
		case "bvsub":
			return IArith("-", a, b)
		case "bvmul":
			return IArith("*", a, b)
		}
		panic("Bin " + op + " on Int terms")
	}
	w := a.w
	if a.IsConst() && b.IsConst() {
		x, y := a.c, b.c
		r := new(big.Int)
		switch op {
		case "bvadd":
			return BVbig(w, r.Add(x, y))
		case "bvsub":
			return BVbig(w, r.Sub(x, y))
		case "bvmul":
			return BVbig(w, r.Mul(x, y))
		case "bvand":
			return BVbig(w, r.And(x, y))
		case "bvor":
			return BVbig(w, r.Or(x, y))
		case "bvxor":
			return BVbig(w, r.Xor(x, y))
		case "bvshl":
			if y.Cmp(big.NewInt(int64(w))) >= 0 {
				return BV(w, 0)
			}
			return BVbig(w, r.Lsh(x, uint(y.Uint64())))
		case "bvlshr":
			if y.Cmp(big.NewInt(int64(w))) >= 0 {
				return BV(w, 0)
			}
			return BVbig(w, r.Rsh(x, uint(y.Uint64())))
		case "bvashr":
			s := a.Signed()
			sh := uint(w)
			if y.Cmp(big.NewInt(int64(w))) < 0 {
				sh = uint(y.Uint64())
			}
			return BVbig(w, r.Rsh(s, sh))
		case "bvudiv":
			if y.Sign() != 0 {
				return BVbig(w, r.Quo(x, y))
			}
		case "bvurem":
			if y.Sign() != 0 {
				return BVbig(w, r.Rem(x, y))
			}
		case "bvsdiv":
			if y.Sign() != 0 {
				return BVbig(w, r.Quo(a.Signed(), b.Signed()))
			}
		case "bvsrem":
			if y.Sign() != 0 {
				return BVbig(w, r.Rem(a.Signed(), b.Signed()))
			}
		}
	}
	isZero := func(t *Term) bool { return t.IsConst() && t.c.Sign() == 0 }
	switch op {
	case "bvadd", "bvor", "bvxor":
		if isZero(a) {
			return b
		}
		if isZero(b) {
			return a
		}
	case "bvsub", "bvshl", "bvlshr", "bvashr":
		if isZero(b) {
			return a
		}
		if op == "bvsub" && a == b {
			return BV(w, 0)
		}
	case "bvand", "bvmul":
		if isZero(a) || isZero(b) {
			return BV(w, 0)
		}
	}
	// (x + c1) + c2 -> x + (c1+c2) ; (x + c1) - c2
	if (op == "bvadd" || op == "bvsub") && b.IsConst() && a.op == "bvadd" && a.args[1].IsConst() {
		c := new(big.Int)
		if op == "bvadd" {
			c.Add(a.args[1].c, b.c)
		} else {
			c.Sub(a.args[1].c, b.c)
		}
		return Bin("bvadd", a.args[0], BVbig(w, c))
	}
	if op == "bvsub" && b.IsConst() {
		return Bin("bvadd", a, BVbig(w, new(big.Int).Neg(b.c)))
	}
	if op == "bvadd" && a.IsConst() && !b.IsConst() {
		a, b = b, a
	}
	return mk(op, w, "", nil, a, b)
}

func Cmp(op string, a, b *Term) *Term {
	if a.w == SortInt || b.w == SortInt {
		a, b = coerceInt(a), coerceInt(b)
		switch op {
		case "bvslt", "bvult":
			return ICmp("<", a, b)
		case "bvsle", "bvule":
			return ICmp("<=", a, b)
		}
		panic("Cmp " + op + " on Int terms")
	}
	if a.IsConst() && b.IsConst() {
		var r bool
		switch op {
		case "bvult":
			r = a.c.Cmp(b.c) < 0
		case "bvule":
			r = a.c.Cmp(b.c) <= 0
		case "bvslt":
			r = a.Signed().Cmp(b.Signed()) < 0
		case "bvsle":
			r = a.Signed().Cmp(b.Signed()) <= 0
		}
		return Bool(r)
	}
	if a == b {
		return Bool(op == "bvule" || op == "bvsle")
	}
	if op == "bvult" || op == "bvule" {
		if x, ok1, c1 := unsignedInt(a); ok1 {
			if y, ok2, c2 := unsignedInt(b); ok2 && (c1 || c2) {
				if op == "bvult" {
					return ICmp("<", x, y)
				}
				return ICmp("<=", x, y)
			}
		}
	}
	return mk(op, 0, "", nil, a, b)
}
func coerceInt(t *Term) *Term {
	if t.w == SortInt {
		return t
	}
	if t.IsConst() {
		return IntBig(t.Signed())
	}
	panic(fmt.Sprintf("mixing Int and bit-vector terms: %s", termString(t, 3)))
}

func ZExt(a *Term, w int) *Term {
	if w == a.w {
		return a
	}
	if a.IsConst() {
		return BVbig(w, a.c)
	}
	return mk("zext", w, fmt.Sprint(w-a.w), nil, a)
}
func SExt(a *Term, w int) *Term {
	if w == a.w {
		return a
	}
	if a.IsConst() {
		return BVbig(w, a.Signed())
	}
	return mk("sext", w, fmt.Sprint(w-a.w), nil, a)
}
func Extract(a *Term, hi, lo int) *Term {
	if hi-lo+1 == a.w {
		return a
	}
	if a.IsConst() {
		return BVbig(hi-lo+1, new(big.Int).Rsh(a.c, uint(lo)))
	}
	if (a.op == "zext" || a.op == "sext") && hi < a.args[0].w {
		return Extract(a.args[0], hi, lo)
	}
	if a.op == "zext" && lo >= a.args[0].w {
		return BV(hi-lo+1, 0)
	}
	if a.op == "int2bv" {
		// bits [hi:lo] of x mod 2^w  =  floor(x / 2^lo) mod 2^(hi-lo+1)
		x := a.args[0]
		if lo > 0 {
			x = IArith("div", x, IntBig(new(big.Int).Lsh(big.NewInt(1), uint(lo))))
		}
		return Int2BV(x, hi-lo+1)
	}
	if a.op == "bvlshr" && a.args[1].IsConst() {
		k := int(a.args[1].Uint())
		if hi+k < a.w {
			return Extract(a.args[0], hi+k, lo+k)
		}
	}
	if a.op == "ite" {
		return Ite(a.args[0], Extract(a.args[1], hi, lo), Extract(a.args[2], hi, lo))
	}
	if a.op == "extract" {
		var h0, l0 int
		fmt.Sscanf(a.name, "%d %d", &h0, &l0)
		return Extract(a.args[0], hi+l0, lo+l0)
	}
	return mk("extract", hi-lo+1, fmt.Sprintf("%d %d", hi, lo), nil, a)
}
func App(uf string, w int, idx *Term) *Term { return mk("app", w, uf, nil, idx) }

func sortStr(w int) string {
	switch w {
	case 0:
		return "Bool"
	case SortInt:
		return "Int"
	case SortReal:
		return "Real"
	}
	return fmt.Sprintf("(_ BitVec %d)", w)
}

// smt returns the SMT-LIB text of the node itself referencing children by name.
func (t *Term) ref() string {
	switch t.op {
	case "true", "false":
		return t.op
	case "const":
		if t.w == SortInt || t.w == SortReal {
			suf := ""
			if t.w == SortReal {
				suf = ".0"
			}
			if t.c.Sign() < 0 {
				return "(- " + new(big.Int).Neg(t.c).String() + suf + ")"
			}
			return t.c.String() + suf
		}
		return fmt.Sprintf("(_ bv%s %d)", t.c.String(), t.w)
	case "var":
		return smtName(t.name)
	}
	return fmt.Sprintf("t%d", t.id)
}
func (t *Term) def() string {
	as := make([]string, len(t.args))
	for i, a := range t.args {
		as[i] = a.ref()
	}
	switch t.op {
	case "zext":
		return fmt.Sprintf("((_ zero_extend %s) %s)", t.name, as[0])
	case "sext":
		return fmt.Sprintf("((_ sign_extend %s) %s)", t.name, as[0])
	case "extract":
		return fmt.Sprintf("((_ extract %s) %s)", t.name, as[0])
	case "app":
		return fmt.Sprintf("(%s %s)", smtName(t.name), as[0])
	case "int2bv":
		return fmt.Sprintf("((_ int2bv %s) %s)", t.name, as[0])
	case "bv2int":
		return fmt.Sprintf("(bv2int %s)", as[0])
	}
	return "(" + t.op + " " + strings.Join(as, " ") + ")"
}

// ---- mathematical integers / reals (arithmetic mode INT) ----

func IntC(v int64) *Term        { return mk("const", SortInt, "", big.NewInt(v)) }
func IntBig(v *big.Int) *Term   { return mk("const", SortInt, "", new(big.Int).Set(v)) }
func IntVar(name string) *Term  { return mk("var", SortInt, name, nil) }
func RealVar(name string) *Term { return mk("var", SortReal, name, nil) }
func RealC(v int64) *Term       { return mk("const", SortReal, "", big.NewInt(v)) }

func floorDivMod(x, y *big.Int) (*big.Int, *big.Int) {
	// SMT-LIB div/mod: remainder always non-negative
	q, m := new(big.Int), new(big.Int)
	q.DivMod(x, y, m) // Euclidean division
	return q, m
}

// IArith builds an Int/Real operation with constant folding. op in + - * div mod.
func IArith(op string, a, b *Term) *Term {
	w := a.w
	if a.IsConst() && b.IsConst() && w == SortInt {
		r := new(big.Int)
		switch op {
		case "+":
			return IntBig(r.Add(a.c, b.c))
		case "-":
			return IntBig(r.Sub(a.c, b.c))
		case "*":
			return IntBig(r.Mul(a.c, b.c))
		case "div":
			if b.c.Sign() != 0 {
				q, _ := floorDivMod(a.c, b.c)
				return IntBig(q)
			}
		case "mod":
			if b.c.Sign() != 0 {
				_, m := floorDivMod(a.c, b.c)
				return IntBig(m)
			}
		}
	}
	isZero := func(t *Term) bool { return t.IsConst() && t.c.Sign() == 0 }
	isOne := func(t *Term) bool { return t.IsConst() && t.c.Cmp(big.NewInt(1)) == 0 }
	switch op {
	case "+":
		if isZero(a) {
			return b
		}
		if isZero(b) {
			return a
		}
	case "-":
		if isZero(b) {
			return a
		}
		if a == b {
			return mk("const", w, "", big.NewInt(0))
		}
		if w == SortInt {
			// x - (x div c)*c  ->  x mod c
			if f, c, ok := mulConst(b); ok && c.Sign() > 0 && f.op == "div" && f.args[0] == a && f.args[1].IsConst() && f.args[1].c.Cmp(c) == 0 {
				return IArith("mod", a, IntBig(c))
			}
		}
		if w == SortInt && isZero(a) {
			// 0 - x*c  ->  x*(-c)
			if x, c, ok := mulConst(b); ok {
				return IArith("*", x, IntBig(new(big.Int).Neg(c)))
			}
		}
		if w == SortInt && a.op == "+" {
			if a.args[0] == b {
				return a.args[1]
			}
			if a.args[1] == b {
				return a.args[0]
			}
		}
	case "*":
		if isZero(a) || isZero(b) {
			return mk("const", w, "", big.NewInt(0))
		}
		if isOne(a) {
			return b
		}
		if isOne(b) {
			return a
		}
	case "mod":
		if w == SortInt && b.IsConst() && b.c.Sign() > 0 {
			if lo, hi := a.bounds(); lo != nil && hi != nil && lo.Sign() >= 0 && hi.Cmp(b.c) < 0 {
				return a
			}
			if lo, hi := a.bounds(); a.op != "div" && lo != nil && hi != nil && hi.Sign() < 0 && new(big.Int).Neg(lo).Cmp(b.c) <= 0 {
				// -d <= a < 0: a mod d = a + d
				return IArith("+", a, b)
			}
			// (x mod a) mod b with b | a  ->  x mod b
			if a.op == "mod" && a.args[1].IsConst() && a.args[1].c.Sign() > 0 {
				if _, m := new(big.Int).QuoRem(a.args[1].c, b.c, new(big.Int)); m.Sign() == 0 {
					return IArith("mod", a.args[0], b)
				}
			}
			// (A + r) mod d with d | A and 0 <= r < d  ->  r
			if _, r, ok := splitMultiple(a, b.c); ok {
				return r
			}
			// (x * c) mod d with c | d  ->  (x mod (d/c)) * c
			if x, c, ok := mulConst(a); ok && c.Sign() > 0 {
				if q, m := new(big.Int).QuoRem(b.c, c, new(big.Int)); m.Sign() == 0 {
					return IArith("*", IArith("mod", x, IntBig(q)), IntBig(c))
				}
			}
		}
	case "div":
		if isOne(b) {
			return a
		}
		if w == SortInt && b.IsConst() && b.c.Sign() > 0 {
			if lo, hi := a.bounds(); lo != nil && hi != nil && lo.Sign() >= 0 && hi.Cmp(b.c) < 0 {
				return IntC(0)
			}
			if q, ok := exactDiv(a, b.c, 0); ok {
				return q
			}
			// (x mod a) div b with b | a  ->  (x div b) mod (a/b)
			if a.op == "mod" && a.args[1].IsConst() && a.args[1].c.Sign() > 0 {
				if q, m := new(big.Int).QuoRem(a.args[1].c, b.c, new(big.Int)); m.Sign() == 0 && q.Cmp(big.NewInt(1)) > 0 {
					return IArith("mod", IArith("div", a.args[0], b), IntBig(q))
				}
			}
			// (A + r) div d with d | A and 0 <= r < d  ->  A/d
			if q, _, ok := splitMultiple(a, b.c); ok {
				return q
			}
			// (x * c) div d with c | d  ->  x div (d/c)
			if x, c, ok := mulConst(a); ok && c.Sign() > 0 && c.Cmp(big.NewInt(1)) > 0 {
				if q, m := new(big.Int).QuoRem(b.c, c, new(big.Int)); m.Sign() == 0 && q.Cmp(big.NewInt(1)) > 0 {
					return IArith("div", x, IntBig(q))
				}
			}
		}
		// (x * c) div d with d | c  ->  x * (c/d)
		if w == SortInt && b.IsConst() && b.c.Sign() > 0 && a.op == "*" {
			for k := 0; k < 2; k++ {
				if c := a.args[k]; c.IsConst() {
					q, m := new(big.Int).QuoRem(c.c, b.c, new(big.Int))
					if m.Sign() == 0 {
						return IArith("*", a.args[1-k], IntBig(q))
					}
				}
			}
		}
	}
	// bit-field recomposition: bv2int(v[h1:0]) + bv2int(v[h2:h1+1]) * 2^(h1+1)  ->  bv2int(v[h2:0])
	if w == SortInt && op == "+" {
		for k := 0; k < 2; k++ {
			p, q := a, b
			if k == 1 {
				p, q = b, a
			}
			pv, ph, pl, ok1 := bvField(p)
			if !ok1 || pl != 0 {
				continue
			}
			if f, c, ok := mulConst(q); ok {
				if qv, qh, ql, ok2 := bvField(f); ok2 && qv == pv && ql == ph+1 && c.Cmp(new(big.Int).Lsh(big.NewInt(1), uint(ql))) == 0 {
					return BV2Int(Extract(pv, qh, 0), false)
				}
			}
		}
	}
	// positional recomposition: (x mod M) + ((x div M) mod B) * M  ->  x mod (M*B)
	if w == SortInt && op == "+" {
		for k := 0; k < 2; k++ {
			p, q := a, b
			if k == 1 {
				p, q = b, a
			}
			if px, pm, ok := asMod(p); ok && q.op == "*" {
				p = &Term{op: "mod", args: []*Term{px, IntBig(pm)}}
				for j := 0; j < 2; j++ {
					m, f := q.args[j], q.args[1-j]
					if m.IsConst() && m.c.Cmp(p.args[1].c) == 0 && f.op == "div" && f.args[0] == p.args[0] && f.args[1].IsConst() && f.args[1].c.Cmp(m.c) == 0 {
						return p.args[0]
					}
					if m.IsConst() && m.c.Cmp(p.args[1].c) == 0 && f.op == "mod" && f.args[1].IsConst() &&
						f.args[0].op == "div" && f.args[0].args[0] == p.args[0] && f.args[0].args[1].IsConst() && f.args[0].args[1].c.Cmp(m.c) == 0 {
						return IArith("mod", p.args[0], IntBig(new(big.Int).Mul(m.c, f.args[1].c)))
					}
				}
			}
		}
	}
	// (x + c1) + c2 -> x + (c1+c2)
	if w == SortInt && (op == "+" || op == "-") && b.IsConst() && a.op == "+" && a.args[1].IsConst() {
		c := new(big.Int)
		if op == "+" {
			c.Add(a.args[1].c, b.c)
		} else {
			c.Sub(a.args[1].c, b.c)
		}
		return IArith("+", a.args[0], IntBig(c))
	}
	if w == SortInt && op == "-" && b.IsConst() {
		return IArith("+", a, IntBig(new(big.Int).Neg(b.c)))
	}
	if w == SortInt && op == "+" && a.IsConst() && !b.IsConst() {
		a, b = b, a
	}
	r := mk(op, w, "", nil, a, b)
	if w == SortInt {
		lo, hi := intBounds(op, a, b)
		setBounds(r, lo, hi)
	}
	return r
}
// asMod matches x mod M, also in the form x + M that the rewriter gives it when
// -M <= x < 0.
func asMod(p *Term) (*Term, *big.Int, bool) {
	if p.op == "mod" && p.args[1].IsConst() {
		return p.args[0], p.args[1].c, true
	}
	if p.op == "+" && p.w == SortInt && p.args[1].IsConst() && p.args[1].c.Sign() > 0 {
		if lo, hi := p.args[0].bounds(); lo != nil && hi != nil && hi.Sign() < 0 && new(big.Int).Neg(lo).Cmp(p.args[1].c) <= 0 {
			return p.args[0], p.args[1].c, true
		}
	}
	return nil, nil, false
}

// exactDiv returns t/d when t is syntactically a multiple of d (sums, differences
// and constant multiples).
func exactDiv(t *Term, d *big.Int, depth int) (*Term, bool) {
	if t.w != SortInt || depth > 12 {
		return nil, false
	}
	if t.IsConst() {
		q, m := new(big.Int).QuoRem(t.c, d, new(big.Int))
		if m.Sign() == 0 {
			return IntBig(q), true
		}
		return nil, false
	}
	if x, c, ok := mulConst(t); ok {
		q, m := new(big.Int).QuoRem(c, d, new(big.Int))
		if m.Sign() == 0 {
			return IArith("*", x, IntBig(q)), true
		}
		if xq, ok := exactDiv(x, d, depth+1); ok {
			return IArith("*", xq, IntBig(c)), true
		}
		return nil, false
	}
	if t.op == "+" || t.op == "-" {
		a, ok1 := exactDiv(t.args[0], d, depth+1)
		if !ok1 {
			return nil, false
		}
		b, ok2 := exactDiv(t.args[1], d, depth+1)
		if !ok2 {
			return nil, false
		}
		return IArith(t.op, a, b), true
	}
	return nil, false
}

// bvField matches bv2int(v[hi:lo]) (unsigned) and bv2int(v) for a non-composite v.
func bvField(t *Term) (*Term, int, int, bool) {
	if t.op != "bv2int" {
		return nil, 0, 0, false
	}
	x := t.args[0]
	if x.op == "extract" {
		var h, l int
		fmt.Sscanf(x.name, "%d %d", &h, &l)
		return x.args[0], h, l, true
	}
	return x, x.w - 1, 0, true
}

// mulConst matches x * c.
func mulConst(t *Term) (*Term, *big.Int, bool) {
	if t.op == "*" && t.w == SortInt {
		if t.args[1].IsConst() {
			return t.args[0], t.args[1].c, true
		}
		if t.args[0].IsConst() {
			return t.args[1], t.args[0].c, true
		}
	}
	return nil, nil, false
}

// splitMultiple matches A + r where A = x*c with d | c and 0 <= r < d, and returns
// A/d and r.
func splitMultiple(t *Term, d *big.Int) (*Term, *Term, bool) {
	if t.op != "+" || t.w != SortInt {
		return nil, nil, false
	}
	for k := 0; k < 2; k++ {
		A, r := t.args[k], t.args[1-k]
		q, ok := exactDiv(A, d, 0)
		if !ok {
			continue
		}
		if lo, hi := r.bounds(); lo != nil && hi != nil && lo.Sign() >= 0 && hi.Cmp(d) < 0 {
			return q, r, true
		}
	}
	return nil, nil, false
}

func ICmp(op string, a, b *Term) *Term { // < <= > >=
	if a.IsConst() && b.IsConst() {
		c := a.c.Cmp(b.c)
		switch op {
		case "<":
			return Bool(c < 0)
		case "<=":
			return Bool(c <= 0)
		case ">":
			return Bool(c > 0)
		case ">=":
			return Bool(c >= 0)
		}
	}
	if a == b {
		return Bool(op == "<=" || op == ">=")
	}
	if op == ">" {
		return ICmp("<", b, a)
	}
	if op == ">=" {
		return ICmp("<=", b, a)
	}
	al, ah := a.bounds()
	bl, bh := b.bounds()
	if ah != nil && bl != nil {
		if c := ah.Cmp(bl); c < 0 || (c == 0 && op == "<=") {
			return Bool(true)
		}
	}
	if al != nil && bh != nil {
		if c := al.Cmp(bh); c > 0 || (c == 0 && op == "<") {
			return Bool(false)
		}
	}
	return mk(op, 0, "", nil, a, b)
}

// BV2Int / Int2BV are only used on constants or at the boundary of int mode.
func ToReal(a *Term) *Term {
	if a.IsConst() {
		return mk("const", SortReal, "", a.c)
	}
	return mk("to_real", SortReal, "", nil, a)
}
func ToInt(a *Term) *Term {
	if a.op == "to_real" {
		return a.args[0]
	}
	if a.op == "const" {
		return IntBig(a.c)
	}
	return mk("to_int", SortInt, "", nil, a)
}

func AndN(ts ...*Term) *Term {
	r := Bool(true)
	for _, t := range ts {
		r = And(r, t)
	}
	return r
}
func OrN(ts ...*Term) *Term {
	r := Bool(false)
	for _, t := range ts {
		r = Or(r, t)
	}
	return r
}
func Implies(a, b *Term) *Term { return Or(Not(a), b) }

// ---- Go `int` as mathematical Int -------------------------------------------
// Values of Go type int (lengths, offsets, indices, counters) are Int terms.
// Every Int term carries an interval [lo,hi] when one is known statically; an
// arithmetic result whose interval fits int64 cannot have wrapped, so Int
// semantics equals Go semantics. Results without such an interval produce an
// explicit overflow obligation (see Interp.intResult).

var (
	minInt64 = new(big.Int).Neg(new(big.Int).Lsh(big.NewInt(1), 63))
	maxInt64 = new(big.Int).Sub(new(big.Int).Lsh(big.NewInt(1), 63), big.NewInt(1))
)

func IX(k int64) *Term { return IntC(k) }

func (t *Term) bounds() (lo, hi *big.Int) {
	if t.w != SortInt {
		return nil, nil
	}
	if t.op == "const" {
		return t.c, t.c
	}
	return t.lo, t.hi
}
func (t *Term) fitsInt64() bool {
	lo, hi := t.bounds()
	return lo != nil && hi != nil && lo.Cmp(minInt64) >= 0 && hi.Cmp(maxInt64) <= 0
}
func (t *Term) nonNeg() bool {
	lo, _ := t.bounds()
	return lo != nil && lo.Sign() >= 0
}
func setBounds(t *Term, lo, hi *big.Int) *Term {
	if t.op == "const" || lo == nil || hi == nil {
		return t
	}
	if t.lo == nil || lo.Cmp(t.lo) > 0 {
		t.lo = lo
	}
	if t.hi == nil || hi.Cmp(t.hi) < 0 {
		t.hi = hi
	}
	return t
}
func IntVarR(name string, lo, hi *big.Int) *Term {
	return setBounds(IntVar(name), lo, hi)
}

func minBig(xs ...*big.Int) *big.Int {
	m := xs[0]
	for _, x := range xs[1:] {
		if x.Cmp(m) < 0 {
			m = x
		}
	}
	return m
}
func maxBig(xs ...*big.Int) *big.Int {
	m := xs[0]
	for _, x := range xs[1:] {
		if x.Cmp(m) > 0 {
			m = x
		}
	}
	return m
}

// intBounds computes the interval of op(a,b).
func intBounds(op string, a, b *Term) (*big.Int, *big.Int) {
	al, ah := a.bounds()
	bl, bh := b.bounds()
	if al == nil || ah == nil || bl == nil || bh == nil {
		if op == "mod" && b.IsConst() && b.c.Sign() > 0 {
			return big.NewInt(0), new(big.Int).Sub(b.c, big.NewInt(1))
		}
		return nil, nil
	}
	n := func() *big.Int { return new(big.Int) }
	switch op {
	case "+":
		return n().Add(al, bl), n().Add(ah, bh)
	case "-":
		return n().Sub(al, bh), n().Sub(ah, bl)
	case "*":
		p := []*big.Int{n().Mul(al, bl), n().Mul(al, bh), n().Mul(ah, bl), n().Mul(ah, bh)}
		return minBig(p...), maxBig(p...)
	case "div":
		if b.IsConst() && b.c.Sign() > 0 {
			ql, _ := floorDivMod(al, b.c)
			qh, _ := floorDivMod(ah, b.c)
			return ql, qh
		}
	case "mod":
		if b.IsConst() && b.c.Sign() > 0 {
			if al.Sign() >= 0 && ah.Cmp(b.c) < 0 {
				return al, ah
			}
			return big.NewInt(0), n().Sub(b.c, big.NewInt(1))
		}
	}
	return nil, nil
}

// BV2Int converts a bit-vector term to Int (unsigned or two's complement).
func BV2Int(t *Term, signed bool) *Term {
	if t.w == SortInt {
		return t
	}
	if t.IsConst() {
		if signed {
			return IntBig(t.Signed())
		}
		return IntBig(t.c)
	}
	if t.op == "ite" {
		return Ite(t.args[0], BV2Int(t.args[1], signed), BV2Int(t.args[2], signed))
	}
	if !signed {
		if t.op == "zext" {
			return BV2Int(t.args[0], false)
		}
		if t.op == "bvor" || t.op == "bvadd" || t.op == "bvxor" {
			al, ah := bitRange(t.args[0])
			bl, bh := bitRange(t.args[1])
			if ah < bl || bh < al { // disjoint bit supports: or = xor = add = sum
				return IArith("+", BV2Int(t.args[0], false), BV2Int(t.args[1], false))
			}
		}
		if t.op == "bvshl" && t.args[1].IsConst() {
			k := int(t.args[1].Uint())
			_, h := bitRange(t.args[0])
			if h+k < t.w {
				return IArith("*", BV2Int(t.args[0], false), IntBig(new(big.Int).Lsh(big.NewInt(1), uint(k))))
			}
		}
		if t.op == "int2bv" {
			x := t.args[0]
			lo, hi := x.bounds()
			lim := new(big.Int).Lsh(big.NewInt(1), uint(t.w))
			if lo != nil && hi != nil && lo.Sign() >= 0 && hi.Cmp(lim) < 0 {
				return x
			}
			return IArith("mod", x, IntBig(lim))
		}
		r := mk("bv2int", SortInt, "", nil, t)
		return setBounds(r, big.NewInt(0), new(big.Int).Sub(new(big.Int).Lsh(big.NewInt(1), uint(t.w)), big.NewInt(1)))
	}
	if t.op == "sext" {
		return BV2Int(t.args[0], true)
	}
	if t.op == "zext" {
		return BV2Int(t.args[0], false)
	}
	if t.op == "int2bv" && t.w == 64 && t.args[0].fitsInt64() {
		return t.args[0]
	}
	// the unsigned value first (decomposed into a sum where the bits are assembled
	// from disjoint pieces), then the two's complement reading
	u := BV2Int(t, false)
	half := new(big.Int).Lsh(big.NewInt(1), uint(t.w-1))
	full := new(big.Int).Lsh(big.NewInt(1), uint(t.w))
	if ul, uh := u.bounds(); ul != nil && uh != nil && ul.Sign() >= 0 && uh.Cmp(half) < 0 {
		return u
	}
	r := Ite(ICmp("<", u, IntBig(half)), u, IArith("-", u, IntBig(full)))
	return setBounds(r, new(big.Int).Neg(half), new(big.Int).Sub(half, big.NewInt(1)))
}

// bitRange returns the lowest and highest bit position that can be non-zero in t
// (lo > hi means the value is zero).
func bitRange(t *Term) (int, int) {
	switch t.op {
	case "const":
		if t.c.Sign() == 0 {
			return 1, 0
		}
		lo := 0
		for t.c.Bit(lo) == 0 {
			lo++
		}
		return lo, t.c.BitLen() - 1
	case "zext":
		return bitRange(t.args[0])
	case "bvshl":
		if t.args[1].IsConst() {
			k := int(t.args[1].Uint())
			l, h := bitRange(t.args[0])
			if l > h {
				return 1, 0
			}
			if h+k >= t.w {
				h = t.w - 1 - k
			}
			return l + k, h + k
		}
	case "bvlshr":
		if t.args[1].IsConst() {
			k := int(t.args[1].Uint())
			l, h := bitRange(t.args[0])
			if h-k < 0 {
				return 1, 0
			}
			if l-k < 0 {
				l = k
			}
			return l - k, h - k
		}
	case "bvor", "bvxor":
		al, ah := bitRange(t.args[0])
		bl, bh := bitRange(t.args[1])
		if al > ah {
			return bl, bh
		}
		if bl > bh {
			return al, ah
		}
		if bl < al {
			al = bl
		}
		if bh > ah {
			ah = bh
		}
		return al, ah
	case "bvand":
		al, ah := bitRange(t.args[0])
		bl, bh := bitRange(t.args[1])
		if bl > al {
			al = bl
		}
		if bh < ah {
			ah = bh
		}
		return al, ah
	case "int2bv":
		lo, hi := t.args[0].bounds()
		if lo != nil && hi != nil && lo.Sign() >= 0 && hi.BitLen() <= t.w {
			if hi.Sign() == 0 {
				return 1, 0
			}
			return 0, hi.BitLen() - 1
		}
	}
	return 0, t.w - 1
}

// Int2BV converts an Int term to a bit-vector of width w (wrapping).
func Int2BV(t *Term, w int) *Term {
	if t.w != SortInt {
		panic("Int2BV of non-Int")
	}
	if t.IsConst() {
		return BVbig(w, t.c)
	}
	if t.op == "bv2int" {
		x := t.args[0]
		switch {
		case x.w == w:
			return x
		case x.w < w:
			return ZExt(x, w)
		default:
			return Extract(x, w-1, 0)
		}
	}
	// int2bv is a ring homomorphism: distribute over ite, + - * so that
	// conversions of bit-vector origin cancel
	if containsBV2Int(t, 6) {
		switch t.op {
		case "ite":
			return Ite(t.args[0], Int2BV(t.args[1], w), Int2BV(t.args[2], w))
		case "+":
			return Bin("bvadd", Int2BV(t.args[0], w), Int2BV(t.args[1], w))
		case "-":
			return Bin("bvsub", Int2BV(t.args[0], w), Int2BV(t.args[1], w))
		case "*":
			return Bin("bvmul", Int2BV(t.args[0], w), Int2BV(t.args[1], w))
		}
	}
	return mk("int2bv", w, fmt.Sprint(w), nil, t)
}

func containsBV2Int(t *Term, depth int) bool {
	if t.op == "bv2int" {
		return true
	}
	if depth == 0 || t.w != SortInt {
		return false
	}
	switch t.op {
	case "ite":
		return containsBV2Int(t.args[1], depth-1) || containsBV2Int(t.args[2], depth-1)
	case "+", "-", "*":
		return containsBV2Int(t.args[0], depth-1) || containsBV2Int(t.args[1], depth-1)
	}
	return false
}
