package main

import (
	"fmt"
	"math/big"
	"strings"
)

// Sorts: w>0 bit-vector of width w; w==0 Bool; w==-1 Int; w==-2 Real.
const (
	SortInt  = -1
	SortReal = -2
)

type Term struct {
	op   string
	args []*Term
	w    int
	c    *big.Int // constant value (bv/int) ; for bool consts c=0/1
	name string   // var / uf name / extract params
	id   int
}

type tkey struct {
	op   string
	w    int
	name string
	c    string
	n    int
	a    [3]int
}

var (
	termTab = map[tkey]*Term{}
	termSeq = 0
)

func mk(op string, w int, name string, c *big.Int, args ...*Term) *Term {
	k := tkey{op: op, w: w, name: name, n: len(args)}
	if c != nil {
		if c.IsInt64() {
			k.a[2] = int(c.Int64())
			k.c = "i"
		} else {
			k.c = c.String()
		}
	}
	if len(args) > 3 {
		panic("mk: too many args")
	}
	for i, a := range args {
		if c != nil && i == 2 {
			panic("mk: const with 3 args")
		}
		k.a[i] = a.id
	}
	if t, ok := termTab[k]; ok {
		return t
	}
	termSeq++
	t := &Term{op: op, args: args, w: w, c: c, name: name, id: termSeq}
	termTab[k] = t
	return t
}

func mask(w int) *big.Int {
	return new(big.Int).Sub(new(big.Int).Lsh(big.NewInt(1), uint(w)), big.NewInt(1))
}
func norm(v *big.Int, w int) *big.Int {
	return new(big.Int).And(v, mask(w))
}
func BV(w int, v int64) *Term       { return BVbig(w, big.NewInt(v)) }
func BVbig(w int, v *big.Int) *Term { return mk("const", w, "", norm(v, w)) }
func Bool(b bool) *Term {
	if b {
		return mk("true", 0, "", nil)
	}
	return mk("false", 0, "", nil)
}
func Var(name string, w int) *Term { return mk("var", w, name, nil) }
func (t *Term) IsConst() bool      { return t.op == "const" || t.op == "true" || t.op == "false" }
func (t *Term) IsTrue() bool       { return t.op == "true" }
func (t *Term) IsFalse() bool      { return t.op == "false" }
func (t *Term) Uint() uint64       { return t.c.Uint64() }
func (t *Term) Signed() *big.Int {
	if t.w < 0 {
		return new(big.Int).Set(t.c)
	}
	if t.c.Bit(t.w-1) == 1 {
		return new(big.Int).Sub(t.c, new(big.Int).Lsh(big.NewInt(1), uint(t.w)))
	}
	return new(big.Int).Set(t.c)
}
func (t *Term) Int() int64 { return t.Signed().Int64() }

func Not(a *Term) *Term {
	switch a.op {
	case "true":
		return Bool(false)
	case "false":
		return Bool(true)
	case "not":
		return a.args[0]
	}
	return mk("not", 0, "", nil, a)
}
func And(a, b *Term) *Term {
	if a.IsFalse() || b.IsFalse() {
		return Bool(false)
	}
	if a.IsTrue() {
		return b
	}
	if b.IsTrue() || a == b {
		return a
	}
	return mk("and", 0, "", nil, a, b)
}
func Or(a, b *Term) *Term {
	if a.IsTrue() || b.IsTrue() {
		return Bool(true)
	}
	if a.IsFalse() {
		return b
	}
	if b.IsFalse() || a == b {
		return a
	}
	return mk("or", 0, "", nil, a, b)
}
func Ite(c, a, b *Term) *Term {
	if c.IsTrue() {
		return a
	}
	if c.IsFalse() {
		return b
	}
	if a == b {
		return a
	}
	if a.w == 0 {
		return Or(And(c, a), And(Not(c), b))
	}
	return mk("ite", a.w, "", nil, c, a, b)
}
func Eq(a, b *Term) *Term {
	if a == b {
		return Bool(true)
	}
	if a.IsConst() && b.IsConst() {
		if a.w == 0 {
			return Bool(a.op == b.op)
		}
		return Bool(a.c.Cmp(b.c) == 0)
	}
	if a.w == 0 {
		return Or(And(a, b), And(Not(a), Not(b)))
	}
	if a.id > b.id {
		a, b = b, a
	}
	return mk("=", 0, "", nil, a, b)
}

// bin builds a bit-vector binary op with constant folding.
func Bin(op string, a, b *Term) *Term {
	w := a.w
	if a.IsConst() && b.IsConst() {
		x, y := a.c, b.c
		r := new(big.Int)
		switch op {
		case "bvadd":
			return BVbig(w, r.Add(x, y))
		case "bvsub":
			return BVbig(w, r.Sub(x, y))
		case "bvmul":
			return BVbig(w, r.Mul(x, y))
		case "bvand":
			return BVbig(w, r.And(x, y))
		case "bvor":
			return BVbig(w, r.Or(x, y))
		case "bvxor":
			return BVbig(w, r.Xor(x, y))
		case "bvshl":
			if y.Cmp(big.NewInt(int64(w))) >= 0 {
				return BV(w, 0)
			}
			return BVbig(w, r.Lsh(x, uint(y.Uint64())))
		case "bvlshr":
			if y.Cmp(big.NewInt(int64(w))) >= 0 {
				return BV(w, 0)
			}
			return BVbig(w, r.Rsh(x, uint(y.Uint64())))
		case "bvashr":
			s := a.Signed()
			sh := uint(w)
			if y.Cmp(big.NewInt(int64(w))) < 0 {
				sh = uint(y.Uint64())
			}
			return BVbig(w, r.Rsh(s, sh))
		case "bvudiv":
			if y.Sign() != 0 {
				return BVbig(w, r.Quo(x, y))
			}
		case "bvurem":
			if y.Sign() != 0 {
				return BVbig(w, r.Rem(x, y))
			}
		case "bvsdiv":
			if y.Sign() != 0 {
				return BVbig(w, r.Quo(a.Signed(), b.Signed()))
			}
		case "bvsrem":
			if y.Sign() != 0 {
				return BVbig(w, r.Rem(a.Signed(), b.Signed()))
			}
		}
	}
	isZero := func(t *Term) bool { return t.IsConst() && t.c.Sign() == 0 }
	switch op {
	case "bvadd", "bvor", "bvxor":
		if isZero(a) {
			return b
		}
		if isZero(b) {
			return a
		}
	case "bvsub", "bvshl", "bvlshr", "bvashr":
		if isZero(b) {
			return a
		}
		if op == "bvsub" && a == b {
			return BV(w, 0)
		}
	case "bvand", "bvmul":
		if isZero(a) || isZero(b) {
			return BV(w, 0)
		}
	}
	// (x + c1) + c2 -> x + (c1+c2) ; (x + c1) - c2
	if (op == "bvadd" || op == "bvsub") && b.IsConst() && a.op == "bvadd" && a.args[1].IsConst() {
		c := new(big.Int)
		if op == "bvadd" {
			c.Add(a.args[1].c, b.c)
		} else {
			c.Sub(a.args[1].c, b.c)
		}
		return Bin("bvadd", a.args[0], BVbig(w, c))
	}
	if op == "bvsub" && b.IsConst() {
		return Bin("bvadd", a, BVbig(w, new(big.Int).Neg(b.c)))
	}
	if op == "bvadd" && a.IsConst() && !b.IsConst() {
		a, b = b, a
	}
	return mk(op, w, "", nil, a, b)
}

func Cmp(op string, a, b *Term) *Term {
	if a.IsConst() && b.IsConst() {
		var r bool
		switch op {
		case "bvult":
			r = a.c.Cmp(b.c) < 0
		case "bvule":
			r = a.c.Cmp(b.c) <= 0
		case "bvslt":
			r = a.Signed().Cmp(b.Signed()) < 0
		case "bvsle":
			r = a.Signed().Cmp(b.Signed()) <= 0
		}
		return Bool(r)
	}
	if a == b {
		return Bool(op == "bvule" || op == "bvsle")
	}
	return mk(op, 0, "", nil, a, b)
}
func ZExt(a *Term, w int) *Term {
	if w == a.w {
		return a
	}
	if a.IsConst() {
		return BVbig(w, a.c)
	}
	return mk("zext", w, fmt.Sprint(w-a.w), nil, a)
}
func SExt(a *Term, w int) *Term {
	if w == a.w {
		return a
	}
	if a.IsConst() {
		return BVbig(w, a.Signed())
	}
	return mk("sext", w, fmt.Sprint(w-a.w), nil, a)
}
func Extract(a *Term, hi, lo int) *Term {
	if hi-lo+1 == a.w {
		return a
	}
	if a.IsConst() {
		return BVbig(hi-lo+1, new(big.Int).Rsh(a.c, uint(lo)))
	}
	if (a.op == "zext" || a.op == "sext") && hi < a.args[0].w {
		return Extract(a.args[0], hi, lo)
	}
	return mk("extract", hi-lo+1, fmt.Sprintf("%d %d", hi, lo), nil, a)
}
func App(uf string, w int, idx *Term) *Term { return mk("app", w, uf, nil, idx) }

func sortStr(w int) string {
	switch w {
	case 0:
		return "Bool"
	case SortInt:
		return "Int"
	case SortReal:
		return "Real"
	}
	return fmt.Sprintf("(_ BitVec %d)", w)
}

// smt returns the SMT-LIB text of the node itself referencing children by name.
func (t *Term) ref() string {
	switch t.op {
	case "true", "false":
		return t.op
	case "const":
		if t.w == SortInt || t.w == SortReal {
			suf := ""
			if t.w == SortReal {
				suf = ".0"
			}
			if t.c.Sign() < 0 {
				return "(- " + new(big.Int).Neg(t.c).String() + suf + ")"
			}
			return t.c.String() + suf
		}
		return fmt.Sprintf("(_ bv%s %d)", t.c.String(), t.w)
	case "var":
		return smtName(t.name)
	}
	return fmt.Sprintf("t%d", t.id)
}
func (t *Term) def() string {
	as := make([]string, len(t.args))
	for i, a := range t.args {
		as[i] = a.ref()
	}
	switch t.op {
	case "zext":
		return fmt.Sprintf("((_ zero_extend %s) %s)", t.name, as[0])
	case "sext":
		return fmt.Sprintf("((_ sign_extend %s) %s)", t.name, as[0])
	case "extract":
		return fmt.Sprintf("((_ extract %s) %s)", t.name, as[0])
	case "app":
		return fmt.Sprintf("(%s %s)", smtName(t.name), as[0])
	}
	return "(" + t.op + " " + strings.Join(as, " ") + ")"
}

// ---- mathematical integers / reals (arithmetic mode INT) ----

func IntC(v int64) *Term        { return mk("const", SortInt, "", big.NewInt(v)) }
func IntBig(v *big.Int) *Term   { return mk("const", SortInt, "", new(big.Int).Set(v)) }
func IntVar(name string) *Term  { return mk("var", SortInt, name, nil) }
func RealVar(name string) *Term { return mk("var", SortReal, name, nil) }
func RealC(v int64) *Term       { return mk("const", SortReal, "", big.NewInt(v)) }

func floorDivMod(x, y *big.Int) (*big.Int, *big.Int) {
	// SMT-LIB div/mod: remainder always non-negative
	q, m := new(big.Int), new(big.Int)
	q.DivMod(x, y, m) // Euclidean division
	return q, m
}

// IArith builds an Int/Real operation with constant folding. op in + - * div mod.
func IArith(op string, a, b *Term) *Term {
	w := a.w
	if a.IsConst() && b.IsConst() && w == SortInt {
		r := new(big.Int)
		switch op {
		case "+":
			return IntBig(r.Add(a.c, b.c))
		case "-":
			return IntBig(r.Sub(a.c, b.c))
		case "*":
			return IntBig(r.Mul(a.c, b.c))
		case "div":
			if b.c.Sign() != 0 {
				q, _ := floorDivMod(a.c, b.c)
				return IntBig(q)
			}
		case "mod":
			if b.c.Sign() != 0 {
				_, m := floorDivMod(a.c, b.c)
				return IntBig(m)
			}
		}
	}
	isZero := func(t *Term) bool { return t.IsConst() && t.c.Sign() == 0 }
	isOne := func(t *Term) bool { return t.IsConst() && t.c.Cmp(big.NewInt(1)) == 0 }
	switch op {
	case "+":
		if isZero(a) {
			return b
		}
		if isZero(b) {
			return a
		}
	case "-":
		if isZero(b) {
			return a
		}
		if a == b {
			return mk("const", w, "", big.NewInt(0))
		}
	case "*":
		if isZero(a) || isZero(b) {
			return mk("const", w, "", big.NewInt(0))
		}
		if isOne(a) {
			return b
		}
		if isOne(b) {
			return a
		}
	case "div":
		if isOne(b) {
			return a
		}
	}
	return mk(op, w, "", nil, a, b)
}
func ICmp(op string, a, b *Term) *Term { // < <= > >=
	if a.IsConst() && b.IsConst() {
		c := a.c.Cmp(b.c)
		switch op {
		case "<":
			return Bool(c < 0)
		case "<=":
			return Bool(c <= 0)
		case ">":
			return Bool(c > 0)
		case ">=":
			return Bool(c >= 0)
		}
	}
	if a == b {
		return Bool(op == "<=" || op == ">=")
	}
	return mk(op, 0, "", nil, a, b)
}

// BV2Int / Int2BV are only used on constants or at the boundary of int mode.
func ToReal(a *Term) *Term { return mk("to_real", SortReal, "", nil, a) }
func ToInt(a *Term) *Term  { return mk("to_int", SortInt, "", nil, a) }

func AndN(ts ...*Term) *Term {
	r := Bool(true)
	for _, t := range ts {
		r = And(r, t)
	}
	return r
}
func OrN(ts ...*Term) *Term {
	r := Bool(false)
	for _, t := range ts {
		r = Or(r, t)
	}
	return r
}
func Implies(a, b *Term) *Term { return Or(Not(a), b) }
