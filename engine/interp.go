package main

import (
	"fmt"
	"go/constant"
	"go/token"
	"go/types"
	"math"
	"os"
	"sort"
	"strings"
	"time"

	"golang.org/x/tools/go/ssa"
)

var decStats map[string]int

type decision struct {
	alts []int
	cur  int
}
type pathEnd struct {
	kind string // done | panic | unwind | unsupported | infeasible | deadlock | race | inconclusive
	msg  string
}
type killSignal struct{}

// Input is a harness-level nondeterministic value (vfInt, vfBytes, ...).
type Input struct {
	Name string // name#k
	T    *Term  // scalar
	Arr  *ArrNode
	Len  *Term
	Kind string // int | bool | bytes | u16s
}

// Outcome is a reportable end of (or event on) a path.
type Outcome struct {
	Kind    string            `json:"kind"` // violation | panic | deadlock | race | unwind | unsupported | inconclusive
	ID      string            `json:"id"`
	Msg     string            `json:"msg"`
	Known   string            `json:"known,omitempty"`
	Model   map[string]string `json:"model,omitempty"`
	Path    int               `json:"path"`
	Harness string            `json:"harness"`
	HasModel bool             `json:"has_model,omitempty"`
	Nondet  bool              `json:"nondet,omitempty"` // the path depends on engine-internal choices (select, scheduling)
}

type HarnessResult struct {
	Harness     string         `json:"harness"`
	Paths       int            `json:"paths"`
	Done        int            `json:"done"`
	Infeasible  int            `json:"infeasible"`
	Steps       int            `json:"steps"`
	Reach       map[string]int `json:"reach"`
	Asserts     map[string]int `json:"asserts"` // assertion id -> proved instances
	Obligations int            `json:"obligations"`
	Discharged  int            `json:"discharged"`
	Outcomes    []*Outcome     `json:"outcomes"`
	Funcs       map[string]int `json:"funcs"`
	Intrinsics  map[string]int `json:"intrinsics"`
	Bounds      map[string]int `json:"bounds"`
	Queries     int            `json:"queries"`
	Sat         int            `json:"sat"`
	Unsat       int            `json:"unsat"`
	Unknown     int            `json:"unknown"`
	SolverS     float64        `json:"solver_s"`
	MaxQueryMs  int            `json:"max_query_ms"`
	WallS       float64        `json:"wall_s"`
	Samples     []string       `json:"samples"`
	Witnesses   []*Witness     `json:"witnesses"` // models of completed paths, for translator validation
	Notes       []string       `json:"notes"`
	Truncated   bool           `json:"truncated"`
}

// Witness is a concrete input assignment of a completed path together with
// the values the engine computed for vfObserve calls under that assignment.
type Witness struct {
	Model    map[string]string `json:"model"`
	Observed []string          `json:"observed"`
	Path     int               `json:"path"`
}

type Interp struct {
	prog     *ssa.Program
	sol      *Solver
	repoPkgs map[*ssa.Package]bool
	errType  types.Type
	thorough bool
	seed     int64

	// per path
	pc        []*Term
	pcSet     map[int]bool
	stack           []*decision
	depth           int
	fresh           int
	inputs          []*Input
	inputSeq        map[string]int
	globals         map[*ssa.Global]*Cell
	stdInited       map[*ssa.Package]bool
	runningInit     *ssa.Function
	inited          map[*ssa.Package]bool
	initing         bool
	allocs          []allocRec
	callDepth       int
	knownTag        string
	observed        []obsItem
	intNondet       int // count of engine-internal nondeterministic choices on this path (map order, select, append cap)
	side            map[*Cell]interface{}
	intMode         bool
	expectPanic     bool
	unwindViolation bool

	// goroutines
	gs          []*G
	cur         *G
	concurrent  bool
	preemptMax  int
	preemptions int
	pendingEnd  *pathEnd
	clockSeq    int

	loopBound  int
	maxPaths   int
	res        *HarnessResult
	perID      map[string]int
	witnessMax int
	curFn      *ssa.Function
	harnessPkg *ssa.Package
	smallLen   int
	fixedMapOrder bool
	schedLog   []string
	mergeGuard *Term
	noMerge    bool
	skolemSeq  bool
	ignorePanics bool
	seqCap     int
	deadline   time.Time
	itoaTags   map[*ArrNode]*Term
	digitTags  map[*Term]*Term
}

type allocRec struct {
	bytes *Term
	fn    string
}

type obsItem struct {
	name string
	v    Value
}

type frame struct {
	fn     *ssa.Function
	loc    map[ssa.Value]Value
	defers []func()
	visits map[*ssa.BasicBlock]int
}

func (in *Interp) end(kind, msg string) { panic(pathEnd{kind, msg}) }
func (in *Interp) goPanic(msg string) {
	if in.ignorePanics {
		in.end("bound", "panic outside the scope of this harness (decided by C10)")
	}
	in.end("panic", msg)
}
func (in *Interp) unsupported(f string, a ...interface{}) {
	in.end("unsupported", fmt.Sprintf(f, a...))
}
func (in *Interp) freshVar(name string, w int) *Term {
	in.fresh++
	return Var(fmt.Sprintf("%s!%d", name, in.fresh), w)
}
func (in *Interp) assume(c *Term) {
	if c.IsTrue() {
		return
	}
	if c.op == "and" {
		in.assume(c.args[0])
		in.assume(c.args[1])
		return
	}
	if in.pcSet[c.id] {
		return
	}
	in.pcSet[c.id] = true
	in.pc = append(in.pc, c)
}

func (in *Interp) replaying() bool { return in.depth < len(in.stack) }

// choose picks one of the alternatives whose condition is feasible.
func (in *Interp) pastDeadline() {
	if !in.deadline.IsZero() && time.Now().After(in.deadline) && !in.initing {
		in.end("inconclusive", "time budget exhausted inside a path")
	}
}

func (in *Interp) choose(conds []*Term) int {
	in.pastDeadline()
	var d *decision
	if in.depth < len(in.stack) {
		d = in.stack[in.depth]
	} else {
		d = &decision{}
		for i, c := range conds {
			if c.IsFalse() {
				continue
			}
			if c.IsTrue() {
				d.alts = append(d.alts, i)
				continue
			}
			if len(conds) == 2 && i == 1 && len(d.alts) == 0 && (conds[1] == Not(conds[0]) || conds[0] == Not(conds[1])) {
				// pc is satisfiable and pc ∧ c0 is not, hence pc ∧ ¬c0 is
				d.alts = append(d.alts, i)
				continue
			}
			if in.curFn != nil {
				in.sol.ctx = "branch in " + in.curFn.String()
			}
			r := in.sol.Check(in.pc, c)
			if r == "unknown" {
				in.note("feasibility query unknown (branch kept)")
			}
			if r != "unsat" {
				d.alts = append(d.alts, i)
			}
		}
		if len(d.alts) == 0 {
			in.end("infeasible", "no alternative")
		}
		if decStats != nil && in.curFn != nil {
			decStats[fmt.Sprintf("%s alts=%d/%d", in.curFn.String(), len(d.alts), len(conds))]++
		}
		in.stack = append(in.stack, d)
	}
	in.depth++
	c := d.alts[d.cur]
	if len(d.alts) > 1 || !conds[c].IsTrue() {
		in.assume(conds[c])
	}
	return c
}
func (in *Interp) branch(c *Term) bool {
	if c.IsTrue() {
		return true
	}
	if c.IsFalse() {
		return false
	}
	return in.choose([]*Term{c, Not(c)}) == 0
}

// guard is branch for run-time checks (bounds, nil, division): the failing side
// is examined first; when it is infeasible the passing side needs no query
// (the path condition is satisfiable by construction).
func (in *Interp) guard(ok *Term) bool {
	if ok.IsTrue() {
		return true
	}
	if ok.IsFalse() {
		return false
	}
	return in.choose([]*Term{Not(ok), ok}) == 1
}

// chooseN makes an n-way engine-internal nondeterministic choice (all alternatives feasible).
func (in *Interp) chooseN(what string, n int) int {
	if n <= 1 {
		return 0
	}
	in.intNondet++
	conds := make([]*Term, n)
	for i := range conds {
		conds[i] = Bool(true)
	}
	return in.choose(conds)
}

func (in *Interp) note(s string) {
	for _, n := range in.res.Notes {
		if n == s {
			return
		}
	}
	if len(in.res.Notes) < 50 {
		in.res.Notes = append(in.res.Notes, s)
	}
}

func (in *Interp) addOutcome(kind, id, msg string, model map[string]string) {
	key := kind + "|" + id + "|" + in.knownTag
	in.perID[key]++
	limit := 3
	if in.intNondet > 0 || len(in.gs) > 1 {
		limit = 10 // several variants: not every engine-internal choice can be forced natively
	}
	if in.perID[key] > limit {
		return
	}
	mk := key + fmt.Sprint(model)
	if in.perID[mk] > 0 {
		return
	}
	in.perID[mk] = 1
	if in.concurrent {
		msg += " | schedule: " + strings.Join(in.schedLog, " ")
	}
	in.res.Outcomes = append(in.res.Outcomes, &Outcome{Kind: kind, ID: id, Msg: msg, Known: in.knownTag, Model: model, Path: in.res.Paths, Harness: in.res.Harness, HasModel: model != nil, Nondet: in.intNondet > 0 || len(in.gs) > 1})
}

// assertHolds checks that cond holds on this path; otherwise records a violation with a model.
func (in *Interp) assertHolds(c *Term, id string) {
	if in.replaying() {
		// already decided on an earlier path with the same decision prefix
		if !c.IsTrue() {
			in.assume(c)
		}
		return
	}
	in.res.Obligations++
	in.sol.ctx = "assert " + id
	defer func() { in.sol.ctx = "" }()
	if c.IsTrue() {
		in.res.Discharged++
		in.res.Asserts[id]++
		return
	}
	r := in.sol.Check(in.pc, Not(c))
	switch r {
	case "unsat":
		in.res.Discharged++
		in.res.Asserts[id]++
		in.assume(c)
		return
	case "unknown":
		in.addOutcome("inconclusive", id, "solver returned unknown for assertion", nil)
		in.assume(c)
		return
	}
	model := in.model(Not(c))
	in.addOutcome("violation", id, "assertion can fail", model)
	// continue under the assumption that it held, if possible
	if in.sol.Check(in.pc, c) == "unsat" {
		in.end("infeasible", "assertion always fails here")
	}
	in.assume(c)
}

// model extracts values of all harness inputs under pc ∧ extra.
func (in *Interp) model(extra *Term) map[string]string {
	m := map[string]string{}
	var ts []*Term
	var names []string
	for _, inp := range in.inputs {
		if inp.T != nil {
			ts = append(ts, inp.T)
			names = append(names, inp.Name)
		}
		if inp.Len != nil {
			ts = append(ts, inp.Len)
			names = append(names, inp.Name+".len")
		}
	}
	vals, ok := in.sol.ModelBegin(in.pc, extra, ts)
	if !ok {
		in.sol.ModelEnd()
		return nil
	}
	for i, n := range names {
		m[n] = vals[i]
	}
	for _, inp := range in.inputs {
		if inp.Arr == nil {
			continue
		}
		// sparse model: the positions at which the path read the array
		seen := map[int]bool{}
		var idx []*Term
		for _, t := range ufReads[inp.Arr.uf] {
			if !seen[t.id] {
				seen[t.id] = true
				idx = append(idx, t)
			}
		}
		if len(idx) > 3000 {
			idx = idx[:3000]
		}
		pos := in.sol.ModelMore(idx)
		vals := make([]*Term, len(idx))
		for k, p := range pos {
			vals[k] = inp.Arr.Read(parseModelVal(p, SortInt))
		}
		bs := in.sol.ModelMore(vals)
		var parts []string
		done := map[string]bool{}
		for k := range idx {
			if !done[pos[k]] {
				done[pos[k]] = true
				parts = append(parts, pos[k]+":"+bs[k])
			}
		}
		m[inp.Name] = strings.Join(parts, ",")
	}
	in.sol.ModelEnd()
	return m
}

// Explore runs the harness over all paths.
func (in *Interp) Explore(fn *ssa.Function) {
	for {
		in.pc = nil
		ufReads = map[string][]*Term{}
		in.pcSet = map[int]bool{}
		in.depth = 0
		in.fresh = 0
		in.inputs = nil
		in.inputSeq = map[string]int{}
		in.allocs = nil
		in.globals = map[*ssa.Global]*Cell{}
		in.stdInited = map[*ssa.Package]bool{}
		in.inited = map[*ssa.Package]bool{}
		in.side = map[*Cell]interface{}{}
		in.knownTag = ""
		in.observed = nil
		in.intNondet = 0
		in.intMode = false
		in.expectPanic = false
		in.unwindViolation = false
		in.gs = nil
		in.concurrent = false
		in.preemptions = 0
		in.pendingEnd = nil
		in.callDepth = 0
		in.smallLen = 4
		in.fixedMapOrder = false
		in.schedLog = nil
		in.mergeGuard = nil
		in.ignorePanics = false
		in.seqCap = 64
		in.runPath(fn)
		in.res.Paths++
		if os.Getenv("SYMGO_DEBUG") != "" {
			fmt.Fprintf(os.Stderr, "path %d depth=%d pc=%d steps=%d q=%d\n", in.res.Paths, len(in.stack), len(in.pc), in.res.Steps, in.sol.queries)
		}
		// backtrack
		for len(in.stack) > 0 {
			d := in.stack[len(in.stack)-1]
			if d.cur+1 < len(d.alts) {
				d.cur++
				break
			}
			in.stack = in.stack[:len(in.stack)-1]
		}
		if len(in.stack) == 0 {
			return
		}
		if !in.deadline.IsZero() && time.Now().After(in.deadline) {
			in.res.Truncated = true
			in.addOutcome("inconclusive", "time-budget", fmt.Sprintf("time budget exhausted after %d paths", in.res.Paths), nil)
			return
		}
		if in.maxPaths > 0 && in.res.Paths >= in.maxPaths {
			in.res.Truncated = true
			in.addOutcome("inconclusive", "max-paths", fmt.Sprintf("path budget %d exhausted", in.maxPaths), nil)
			return
		}
	}
}

func (in *Interp) runPath(fn *ssa.Function) {
	defer func() {
		r := recover()
		in.killAll()
		if r == nil {
			return
		}
		pe, ok := r.(pathEnd)
		if !ok {
			panic(r)
		}
		switch pe.kind {
		case "done":
			in.res.Done++
			in.pathDone()
		case "infeasible":
			in.res.Infeasible++
		case "panic":
			if in.expectPanic {
				in.res.Done++
				in.res.Reach["expected-panic"]++
				return
			}
			in.addOutcome("panic", "no-panic", pe.msg, in.model(Bool(true)))
		case "deadlock":
			in.addOutcome("deadlock", "no-deadlock", pe.msg, in.model(Bool(true)))
		case "race":
			in.addOutcome("race", "no-race", pe.msg, in.model(Bool(true)))
		case "bound":
			// the path leaves the stated bound: not explored, counted
			in.res.Reach["out-of-bound:"+pe.msg]++
		case "unwind":
			if in.unwindViolation {
				in.addOutcome("violation", "terminates", pe.msg, in.model(Bool(true)))
			} else {
				in.addOutcome("unwind", "unwind", pe.msg, nil)
			}
		default:
			in.addOutcome(pe.kind, pe.kind, pe.msg, nil)
		}
	}()
	in.startMain()
	in.initing = true
	in.initPkg(fn.Pkg)
	in.initing = false
	in.call(fn, nil)
	in.end("done", "")
}

func (in *Interp) pathDone() {
	if len(in.res.Samples) < 6 {
		in.res.Samples = append(in.res.Samples, in.pcSample())
	}
	if len(in.res.Witnesses) < in.witnessMax && in.intNondet == 0 && !in.concurrent && len(in.observed) > 0 {
		// concrete witness of this path: inputs + observed values
		var ts []*Term
		for _, o := range in.observed {
			ts = append(ts, in.flatten(o.v)...)
		}
		m := in.model(Bool(true))
		if m == nil {
			return
		}
		// pin inputs to the model so that observed values are evaluated under it
		w := &Witness{Model: m, Path: in.res.Paths}
		vals, ok := in.sol.ModelBegin(in.pc, in.modelEq(m), ts)
		if ok {
			k := 0
			for _, o := range in.observed {
				n := len(in.flatten(o.v))
				w.Observed = append(w.Observed, o.name+"="+strings.Join(vals[k:k+n], ","))
				k += n
			}
			in.res.Witnesses = append(in.res.Witnesses, w)
		}
		in.sol.ModelEnd()
	}
}

// modelEq returns the conjunction input==value for all scalar inputs and array cells of a model.
func (in *Interp) modelEq(m map[string]string) *Term {
	c := Bool(true)
	for _, inp := range in.inputs {
		if inp.T != nil {
			if v, ok := m[inp.Name]; ok {
				c = And(c, Eq(inp.T, parseModelVal(v, inp.T.w)))
			}
		}
		if inp.Len != nil && !inp.Len.IsConst() {
			if v, ok := m[inp.Name+".len"]; ok {
				c = And(c, Eq(inp.Len, parseModelVal(v, inp.Len.w)))
			}
		}
		if inp.Arr != nil && m[inp.Name] != "" {
			for _, s := range strings.Split(m[inp.Name], ",") {
				kv := strings.SplitN(s, ":", 2)
				c = And(c, Eq(inp.Arr.Read(parseModelVal(kv[0], SortInt)), parseModelVal(kv[1], inp.Arr.ew)))
			}
		}
	}
	return c
}

func (in *Interp) pcSample() string {
	var sb strings.Builder
	n := 0
	for _, c := range in.pc {
		s := termString(c, 4)
		if len(s) > 160 {
			s = s[:160] + "…"
		}
		if n++; n > 8 {
			fmt.Fprintf(&sb, " ∧ …(%d more)", len(in.pc)-8)
			break
		}
		if sb.Len() > 0 {
			sb.WriteString(" ∧ ")
		}
		sb.WriteString(s)
	}
	if sb.Len() == 0 {
		return "true (single concrete path)"
	}
	return sb.String()
}

func (in *Interp) initPkg(p *ssa.Package) {
	if p == nil || in.inited[p] {
		return
	}
	in.inited[p] = true
	if !in.repoPkgs[p] {
		return
	}
	// initialise imported repo packages first
	for _, imp := range p.Pkg.Imports() {
		if ip := in.prog.Package(imp); ip != nil && in.repoPkgs[ip] {
			in.initPkg(ip)
		}
	}
	if f := p.Func("init"); f != nil {
		in.call(f, nil)
	}
}

func (in *Interp) newFrame(fn *ssa.Function) *frame {
	in.res.Funcs[fn.String()] += 0
	return &frame{fn: fn, loc: map[ssa.Value]Value{}, visits: map[*ssa.BasicBlock]int{}}
}

func (in *Interp) call(fn *ssa.Function, args []Value) Value {
	return in.callFunc(&FuncV{fn: fn}, args)
}

// execAllowed says whether a non-repo function may be executed from its real SSA.
func (in *Interp) execAllowed(fn *ssa.Function) bool {
	if fn.Pkg == nil {
		// synthetic wrappers / bound methods / instantiations
		return true
	}
	if in.repoPkgs[fn.Pkg] {
		return true
	}
	switch fn.String() {
	case "(database/sql.IsolationLevel).String":
		return true
	}
	switch fn.Pkg.Pkg.Path() {
	case "errors", "encoding/binary", "unicode/utf16", "unicode/utf8", "io", "math/bits", "sort", "unicode",
		"github.com/hashicorp/go-multierror", "github.com/hashicorp/errwrap", "internal/itoa", "strconv", "strings", "bytes", "internal/stringslite", "slices", "cmp", "net/url":
		return true
	}
	return false
}

func (in *Interp) callFunc(fv *FuncV, args []Value) Value {
	if fv == nil {
		in.goPanic("call of nil func")
	}
	if fv.bi != "" {
		return in.builtin(fv.bi, args, nil)
	}
	if v, ok := in.intrinsic(fv.fn, args); ok {
		return v
	}
	if fv.fn.Blocks == nil {
		in.unsupported("external function %s", fv.fn.String())
	}
	if !in.execAllowed(fv.fn) {
		in.unsupported("no model for %s", fv.fn.String())
	}
	in.callDepth++
	if in.callDepth > 300 {
		in.unsupported("call depth")
	}
	fr := in.newFrame(fv.fn)
	for i, p := range fv.fn.Params {
		fr.loc[p] = args[i]
	}
	for i, p := range fv.fn.FreeVars {
		fr.loc[p] = fv.bind[i]
	}
	r := in.run(fr)
	in.callDepth--
	return r
}

func (in *Interp) run(fr *frame) Value {
	var prev *ssa.BasicBlock
	b := fr.fn.Blocks[0]
	fname := fr.fn.String()
	skipPhis := false
	for {
		fr.visits[b]++
		if fr.visits[b] > in.loopBound && !in.initing {
			in.end("unwind", fmt.Sprintf("loop bound %d exceeded in %s block %d", in.loopBound, fr.fn, b.Index))
		}
		var next *ssa.BasicBlock
		phisDone := skipPhis
		skipPhis = false
		in.res.Funcs[fname] += len(b.Instrs)
		for _, ins := range b.Instrs {
			in.res.Steps++
			switch x := ins.(type) {
			case *ssa.Phi:
				if phisDone {
					break
				}
				for i, p := range b.Preds {
					if p == prev {
						fr.loc[x] = in.get(fr, x.Edges[i])
					}
				}
			case *ssa.If:
				cond := in.get(fr, x.Cond).(*Term)
				if !cond.IsConst() {
					if j := in.tryMerge(fr, x, cond); j != nil {
						next = j
						skipPhis = true
						break
					}
				}
				if in.branch(cond) {
					next = b.Succs[0]
				} else {
					next = b.Succs[1]
				}
			case *ssa.Jump:
				next = b.Succs[0]
			case *ssa.Return:
				var rv Value
				switch len(x.Results) {
				case 0:
				case 1:
					rv = in.get(fr, x.Results[0])
				default:
					t := make(TupleV, len(x.Results))
					for i, r := range x.Results {
						t[i] = in.get(fr, r)
					}
					rv = t
				}
				return rv
			case *ssa.RunDefers:
				for i := len(fr.defers) - 1; i >= 0; i-- {
					fr.defers[i]()
				}
				fr.defers = nil
			case *ssa.Panic:
				in.goPanic(fmt.Sprintf("explicit panic in %s", fr.fn))
			default:
				in.curFn = fr.fn
				in.exec(fr, ins)
			}
		}
		prev, b = b, next
	}
}

func (in *Interp) get(fr *frame, v ssa.Value) Value {
	switch x := v.(type) {
	case *ssa.Const:
		return in.constVal(x)
	case *ssa.Function:
		return &FuncV{fn: x}
	case *ssa.Builtin:
		return &FuncV{bi: x.Name()}
	case *ssa.Global:
		return &PtrV{cell: in.global(x)}
	}
	r, ok := fr.loc[v]
	if !ok {
		in.unsupported("unbound value %s in %s", v.Name(), fr.fn)
	}
	return r
}

var sentinelTypes = map[string]types.Type{}

func sentinelType(pkg *types.Package, name string) types.Type {
	k := pkg.Path() + "." + name
	if t, ok := sentinelTypes[k]; ok {
		return t
	}
	t := types.NewPointer(types.NewNamed(types.NewTypeName(token.NoPos, pkg, "sentinel_"+name, nil), types.NewStruct(nil, nil), nil))
	sentinelTypes[k] = t
	return t
}

func (in *Interp) stdInitOnDemand(p *ssa.Package) bool {
	if p == nil || in.stdInited[p] {
		return false
	}
	switch p.Pkg.Path() {
	case "unicode/utf8", "net/url", "strings", "bytes", "sort", "slices":
		return true
	}
	return false
}

func (in *Interp) global(g *ssa.Global) *Cell {
	c, ok := in.globals[g]
	if !ok {
		et := g.Type().(*types.Pointer).Elem()
		c = &Cell{in.zero(et)}
		if !in.repoPkgs[g.Pkg] {
			if types.Identical(et, in.errType) {
				// opaque distinct stdlib sentinel error (io.EOF, context.Canceled, ...)
				c.v = &IfaceV{typ: sentinelType(g.Pkg.Pkg, g.Name()), val: &PtrV{cell: &Cell{&ErrObj{format: g.Pkg.Pkg.Path() + "." + g.Name()}}}}
			} else if in.stdInitOnDemand(g.Pkg) {
				// the tables of a library package executed from its own SSA (utf8.first,
				// ...) are filled by running that package's init when first touched
				in.globals[g] = c
				in.stdInited[g.Pkg] = true
				if f := g.Pkg.Func("init"); f != nil {
					prev := in.runningInit
					in.runningInit = f
					in.call(f, nil)
					in.runningInit = prev
				}
				return in.globals[g]
			}
		}
		in.globals[g] = c
	}
	return c
}

func width(t types.Type) int {
	switch b := t.Underlying().(type) {
	case *types.Basic:
		switch b.Kind() {
		case types.Bool, types.UntypedBool:
			return 0
		case types.Int8, types.Uint8:
			return 8
		case types.Int16, types.Uint16:
			return 16
		case types.Int32, types.Uint32, types.Float32, types.UntypedRune:
			return 32
		case types.String, types.UntypedString, types.UnsafePointer, types.UntypedNil:
			return -9
		case types.Int, types.UntypedInt, types.Int64:
			// Go int and int64 are mathematical integers with explicit wrap-around
			return SortInt
		default:
			return 64
		}
	}
	return -9
}
func isSigned(t types.Type) bool {
	b, ok := t.Underlying().(*types.Basic)
	return ok && b.Info()&types.IsInteger != 0 && b.Info()&types.IsUnsigned == 0
}
func isFloat(t types.Type) bool {
	b, ok := t.Underlying().(*types.Basic)
	return ok && b.Info()&types.IsFloat != 0
}
func isScalar(t types.Type) bool {
	b, ok := t.Underlying().(*types.Basic)
	if ok && (b.Kind() == types.Int || b.Kind() == types.UntypedInt || b.Kind() == types.Int64) {
		return true
	}
	return ok && b.Kind() != types.String && b.Kind() != types.UnsafePointer && b.Kind() != types.UntypedNil
}

func namedPath(t types.Type) string {
	if n, ok := t.(*types.Named); ok && n.Obj().Pkg() != nil {
		return n.Obj().Pkg().Path() + "." + n.Obj().Name()
	}
	return ""
}

func (in *Interp) zero(t types.Type) Value {
	switch namedPath(t) {
	case "math/big.Int":
		return &BigObj{v: IntC(0)}
	case "time.Time":
		return &TimeObj{days: IntC(0), nanos: IntC(0)}
	case "bytes.Buffer":
		return &BufObj{s: in.emptyBytes()}
	}
	switch u := t.Underlying().(type) {
	case *types.Basic:
		w := width(t)
		if w == 0 {
			return Bool(false)
		}
		if w == SortInt {
			return IntC(0)
		}
		if w > 0 {
			return BV(w, 0)
		}
		if u.Info()&types.IsString != 0 {
			return &StrV{node: zeroArr(8), off: IX(0), len: IX(0)}
		}
		return &PtrV{}
	case *types.Pointer:
		return &PtrV{}
	case *types.Struct:
		so := &StructObj{}
		for i := 0; i < u.NumFields(); i++ {
			so.f = append(so.f, &Cell{in.zero(u.Field(i).Type())})
		}
		return so
	case *types.Array:
		if isScalar(u.Elem()) {
			return &ArrObj{node: zeroArr(width(u.Elem())), ew: width(u.Elem())}
		}
		so := &StructObj{}
		for i := int64(0); i < u.Len(); i++ {
			so.f = append(so.f, &Cell{in.zero(u.Elem())})
		}
		return so
	case *types.Slice:
		if isScalar(u.Elem()) {
			return &SliceV{obj: &ArrObj{node: zeroArr(width(u.Elem())), ew: width(u.Elem())}, off: IX(0), len: IX(0), cap: IX(0), isNil: true}
		}
		return &SliceG{cells: &[]*Cell{}, isNil: true}
	case *types.Interface:
		return (*IfaceV)(nil)
	case *types.Map:
		return (*MapV)(nil)
	case *types.Signature:
		return (*FuncV)(nil)
	case *types.Chan:
		return (*ChanV)(nil)
	case *types.Tuple:
		tv := make(TupleV, u.Len())
		for i := range tv {
			tv[i] = in.zero(u.At(i).Type())
		}
		return tv
	}
	in.unsupported("zero of %s", t)
	return nil
}

func (in *Interp) emptyBytes() *SliceV {
	return &SliceV{obj: &ArrObj{node: zeroArr(8), ew: 8}, off: IX(0), len: IX(0), cap: IX(0)}
}

func copyVal(v Value) Value {
	switch x := v.(type) {
	case *StructObj:
		n := &StructObj{f: make([]*Cell, len(x.f))}
		for i, c := range x.f {
			n.f[i] = &Cell{copyVal(c.v)}
		}
		return n
	case *ArrObj:
		return &ArrObj{node: x.node, ew: x.ew}
	case *BigObj:
		return &BigObj{v: x.v, dig: x.dig, byt: x.byt}
	case *TimeObj:
		return &TimeObj{days: x.days, nanos: x.nanos, civ: x.civ, clk: x.clk}
	case *BufObj:
		return &BufObj{s: x.s, rd: x.rd}
	}
	return v
}

var litCache = map[string]*ArrNode{}

func litStr(s string) *StrV {
	n, ok := litCache[s]
	if !ok {
		n = zeroArr(8)
		for i := 0; i < len(s); i++ {
			n = n.Store(IX(int64(i)), BV(8, int64(s[i])))
		}
		litCache[s] = n
	}
	return &StrV{node: n, off: IX(0), len: IX(int64(len(s)))}
}

func (in *Interp) constVal(c *ssa.Const) Value {
	if c.Value == nil {
		return in.zero(c.Type())
	}
	t := c.Type()
	w := width(t)
	switch c.Value.Kind() {
	case constant.Bool:
		return Bool(constant.BoolVal(c.Value))
	case constant.String:
		return litStr(constant.StringVal(c.Value))
	case constant.Int, constant.Float:
		if isFloat(t) {
			f, _ := constant.Float64Val(c.Value)
			if w == 32 {
				return BV(32, int64(math.Float32bits(float32(f))))
			}
			return BVbig(64, new(bigInt).SetUint64(math.Float64bits(f)))
		}
		bi, ok := new(bigInt).SetString(c.Value.ExactString(), 10)
		if !ok {
			in.unsupported("const %s", c)
		}
		if w == SortInt {
			return IntBig(bi)
		}
		return BVbig(w, bi)
	}
	in.unsupported("const %s", c)
	return nil
}

func fail(f string, a ...interface{}) { fmt.Fprintf(os.Stderr, f+"\n", a...); os.Exit(2) }

func sortedKeys(m map[string]int) []string {
	var ks []string
	for k := range m {
		ks = append(ks, k)
	}
	sort.Strings(ks)
	return ks
}
