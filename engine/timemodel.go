package main

import (
	"math/big"
	"strings"
	"time"
)

// time.Time as (days since 0001-01-01, nanoseconds within the day), both Int
// terms, UTC only (the only location the library uses). Civil fields are
// related to the day number by the textbook proleptic-Gregorian formula
// (days_from_civil) in linear integer arithmetic.

const nsPerDay = 86400 * 1000000000

func idiv(a *Term, c int64) *Term { return IArith("div", a, IntC(c)) } // floor division
func imod(a *Term, c int64) *Term { return IArith("mod", a, IntC(c)) }
func iadd(a, b *Term) *Term       { return IArith("+", a, b) }
func isub(a, b *Term) *Term       { return IArith("-", a, b) }
func imulc(a *Term, c int64) *Term { return IArith("*", a, IntC(c)) }

// daysFromCivil: days since 0001-01-01 of the proleptic Gregorian date (y, m, d), 1 <= m <= 12.
func daysFromCivil(y, m, d *Term) *Term {
	if y.IsConst() && m.IsConst() && d.IsConst() {
		t := time.Date(int(y.Int()), time.Month(m.Int()), int(d.Int()), 0, 0, 0, 0, time.UTC)
		u := t.Unix()
		q := new(big.Int)
		q.Div(big.NewInt(u), big.NewInt(86400)) // floor for negative values too (Euclidean, positive divisor)
		return IntBig(q.Add(q, big.NewInt(719162)))
	}
	le2 := ICmp("<=", m, IntC(2))
	y1 := Ite(le2, isub(y, IntC(1)), y)
	era := idiv(y1, 400)
	yoe := isub(y1, imulc(era, 400))
	mp := Ite(le2, iadd(m, IntC(9)), isub(m, IntC(3)))
	doy := iadd(idiv(iadd(imulc(mp, 153), IntC(2)), 5), isub(d, IntC(1)))
	doe := iadd(isub(iadd(imulc(yoe, 365), idiv(yoe, 4)), idiv(yoe, 100)), doy)
	return iadd(isub(iadd(imulc(era, 146097), doe), IntC(719468)), IntC(719162))
}

func daysInMonth(y, m *Term) *Term {
	leap := And(Eq(imod(y, 4), IntC(0)), Or(Not(Eq(imod(y, 100), IntC(0))), Eq(imod(y, 400), IntC(0))))
	feb := Ite(leap, IntC(29), IntC(28))
	thirty := OrN(Eq(m, IntC(4)), Eq(m, IntC(6)), Eq(m, IntC(9)), Eq(m, IntC(11)))
	return Ite(Eq(m, IntC(2)), feb, Ite(thirty, IntC(30), IntC(31)))
}

func (in *Interp) timeOf(v Value) *TimeObj {
	t, ok := v.(*TimeObj)
	if !ok {
		in.unsupported("time value is %T", v)
	}
	return t
}

// civil returns year, month, day of t (relationally for symbolic day numbers).
func (in *Interp) civil(t *TimeObj) (y, m, d *Term) {
	if t.civ != nil {
		return t.civ[0], t.civ[1], t.civ[2]
	}
	if t.days.IsConst() {
		u := time.Unix((t.days.Int()-719162)*86400, 0).UTC()
		t.civ = &[3]*Term{IntC(int64(u.Year())), IntC(int64(u.Month())), IntC(int64(u.Day()))}
		return t.civ[0], t.civ[1], t.civ[2]
	}
	in.fresh++
	sfx := in.fresh
	ylo, yhi := big.NewInt(-30000), big.NewInt(40000)
	if lo, hi := t.days.bounds(); lo != nil && hi != nil {
		// a year has 365 or 366 days: bounds on the day number bound the year
		ylo = new(big.Int).Div(lo, big.NewInt(366))
		yhi = new(big.Int).Add(new(big.Int).Div(hi, big.NewInt(365)), big.NewInt(2))
		if lo.Sign() < 0 {
			ylo.Sub(ylo, big.NewInt(2))
		}
	}
	y = IntVarR(tName("year", sfx), ylo, yhi)
	d = IntVarR(tName("day", sfx), big.NewInt(1), big.NewInt(31))
	// the month is case-split: with a concrete month the calendar formulas are
	// linear up to divisions by constants
	mv := IntVarR(tName("month", sfx), big.NewInt(1), big.NewInt(12))
	conds := make([]*Term, 12)
	for k := 0; k < 12; k++ {
		mk := IntC(int64(k + 1))
		conds[k] = AndN(Eq(mv, mk), ICmp("<=", d, daysInMonth(y, mk)), Eq(daysFromCivil(y, mk, d), t.days))
	}
	m = IntC(int64(in.choose(conds) + 1))
	t.civ = &[3]*Term{y, m, d}
	return
}

func tName(s string, k int) string { return s + "!" + big.NewInt(int64(k)).String() }

func (in *Interp) timeIntrinsic(name string, args []Value) (Value, bool) {
	if !strings.HasPrefix(name, "time.") && !strings.HasPrefix(name, "(time.Time).") && !strings.HasPrefix(name, "(*time.Time).") {
		return nil, false
	}
	toInt := func(v Value) *Term { return BV2Int(v.(*Term), true) }
	norm := func(days, total *Term) *TimeObj {
		if total.IsConst() && total.c.Sign() >= 0 && total.c.Cmp(big.NewInt(nsPerDay)) < 0 {
			return &TimeObj{days: days, nanos: total}
		}
		return &TimeObj{days: iadd(days, idiv(total, nsPerDay)), nanos: imod(total, nsPerDay)}
	}
	switch name {
	case "time.Date":
		y, m, d := toInt(args[0]), toInt(args[1]), toInt(args[2])
		h, mi, s, ns := toInt(args[3]), toInt(args[4]), toInt(args[5]), toInt(args[6])
		if !(y.IsConst() && m.IsConst() && d.IsConst()) {
			if !in.guard(And(ICmp("<=", IntC(1), m), ICmp("<=", m, IntC(12)))) {
				in.unsupported("time.Date with a symbolic month outside 1..12")
			}
		}
		days := daysFromCivil(y, m, d)
		total := iadd(imulc(iadd(imulc(iadd(imulc(h, 60), mi), 60), s), 1000000000), ns)
		t := norm(days, total)
		// the civil fields are known when the day needs no normalisation
		if t.days == days && !(y.IsConst() && m.IsConst() && d.IsConst()) {
			if in.branch(And(ICmp("<=", IntC(1), d), ICmp("<=", d, daysInMonth(y, m)))) {
				t.civ = &[3]*Term{y, m, d}
			}
		}
		return t, true
	case "(time.Time).AddDate":
		t := in.timeOf(args[0])
		yy, mm, dd := toInt(args[1]), toInt(args[2]), toInt(args[3])
		if !(yy.IsConst() && yy.c.Sign() == 0 && mm.IsConst() && mm.c.Sign() == 0) {
			in.unsupported("Time.AddDate with years or months")
		}
		return &TimeObj{days: iadd(t.days, dd), nanos: t.nanos}, true
	case "(time.Time).Add":
		t := in.timeOf(args[0])
		return norm(t.days, iadd(t.nanos, toInt(args[1]))), true
	case "(time.Time).Year":
		y, _, _ := in.civil(in.timeOf(args[0]))
		return y, true
	case "(time.Time).Month":
		_, m, _ := in.civil(in.timeOf(args[0]))
		return m, true
	case "(time.Time).Day":
		_, _, d := in.civil(in.timeOf(args[0]))
		return d, true
	case "(time.Time).Hour":
		return in.clock(in.timeOf(args[0]))[0], true
	case "(time.Time).Minute":
		return in.clock(in.timeOf(args[0]))[1], true
	case "(time.Time).Second":
		return in.clock(in.timeOf(args[0]))[2], true
	case "(time.Time).Nanosecond":
		return in.clock(in.timeOf(args[0]))[3], true
	case "(time.Time).Equal":
		a, b := in.timeOf(args[0]), in.timeOf(args[1])
		return And(Eq(a.days, b.days), Eq(a.nanos, b.nanos)), true
	case "(time.Time).Before":
		a, b := in.timeOf(args[0]), in.timeOf(args[1])
		return Or(ICmp("<", a.days, b.days), And(Eq(a.days, b.days), ICmp("<", a.nanos, b.nanos))), true
	case "(time.Time).After":
		a, b := in.timeOf(args[0]), in.timeOf(args[1])
		return Or(ICmp("<", b.days, a.days), And(Eq(a.days, b.days), ICmp("<", b.nanos, a.nanos))), true
	case "(time.Time).IsZero":
		a := in.timeOf(args[0])
		return And(Eq(a.days, IntC(0)), Eq(a.nanos, IntC(0))), true
	case "(time.Time).UTC":
		return in.timeOf(args[0]), true
	case "(time.Time).Unix":
		a := in.timeOf(args[0])
		return iadd(imulc(isub(a.days, IntC(719162)), 86400), idiv(a.nanos, 1000000000)), true
	}
	return nil, false
}

// clock returns hour, minute, second, nanosecond of t. For a symbolic time of
// day the four fields are fresh bounded variables tied to the nanosecond count
// by one linear equation (no div/mod terms).
func (in *Interp) clock(t *TimeObj) *[4]*Term {
	if t.clk != nil {
		return t.clk
	}
	if t.nanos.IsConst() {
		n := t.nanos.Int()
		t.clk = &[4]*Term{IntC(n / 3600000000000), IntC(n / 60000000000 % 60), IntC(n / 1000000000 % 60), IntC(n % 1000000000)}
		return t.clk
	}
	in.fresh++
	k := in.fresh
	h := IntVarR(tName("hour", k), big.NewInt(0), big.NewInt(23))
	mi := IntVarR(tName("minute", k), big.NewInt(0), big.NewInt(59))
	sc := IntVarR(tName("second", k), big.NewInt(0), big.NewInt(59))
	ns := IntVarR(tName("nanosecond", k), big.NewInt(0), big.NewInt(999999999))
	sum := iadd(iadd(imulc(h, 3600000000000), imulc(mi, 60000000000)), iadd(imulc(sc, 1000000000), ns))
	in.assume(Eq(sum, t.nanos))
	// implied lemmas in functional form: they let the term rewriter (and the
	// solver) see the sub-second part and the second of the day directly
	// (added only where the rewriter reduces them to something without a fresh
	// div/mod of the whole count, which would make the solver's job harder)
	if l := imod(t.nanos, 1000000000); l.op != "mod" || l.args[0] != t.nanos {
		in.assume(Eq(ns, l))
	}
	if l := idiv(t.nanos, 1000000000); l.op != "div" || l.args[0] != t.nanos {
		in.assume(Eq(iadd(iadd(imulc(h, 3600), imulc(mi, 60)), sc), l))
	}
	t.clk = &[4]*Term{h, mi, sc, ns}
	return t.clk
}
