package main

import (
	"math/big"
	"fmt"
	"go/types"
	"strings"

	"golang.org/x/tools/go/ssa"
)

func (in *Interp) errIface(eo *ErrObj) *IfaceV {
	return &IfaceV{typ: in.fmtErrType(), val: &PtrV{cell: &Cell{eo}}}
}

func errObjOf(e *IfaceV) *ErrObj {
	if e == nil {
		return nil
	}
	p, ok := e.val.(*PtrV)
	if !ok || p.cell == nil {
		return nil
	}
	eo, _ := p.cell.v.(*ErrObj)
	return eo
}

// unwrapErr returns the next error in the chain (nil if none).
func (in *Interp) unwrapErr(e *IfaceV) *IfaceV {
	if eo := errObjOf(e); eo != nil {
		return eo.wrapped
	}
	if m := in.findMethod(e.typ, "Unwrap"); m != nil && m.Signature.Results().Len() == 1 {
		r, _ := in.callFunc(&FuncV{fn: m}, []Value{e.val}).(*IfaceV)
		return r
	}
	return nil
}

func (in *Interp) findMethod(t types.Type, name string) *ssa.Function {
	ms := in.prog.MethodSets.MethodSet(t)
	for i := 0; i < ms.Len(); i++ {
		if ms.At(i).Obj().Name() == name {
			return in.prog.MethodValue(ms.At(i))
		}
	}
	return nil
}

func (in *Interp) errorsIs(e, t *IfaceV) *Term {
	for depth := 0; e != nil && depth < 20; depth++ {
		if t != nil {
			c := in.valEq(e, t)
			if c.IsTrue() {
				return c
			}
			if !c.IsFalse() && in.branch(c) {
				return Bool(true)
			}
		} else {
			return Bool(false)
		}
		if errObjOf(e) == nil {
			if m := in.findMethod(e.typ, "Is"); m != nil {
				r := in.callFunc(&FuncV{fn: m}, []Value{e.val, t}).(*Term)
				if in.branch(r) {
					return Bool(true)
				}
			}
		}
		e = in.unwrapErr(e)
	}
	return Bool(e == nil && t == nil)
}

func (in *Interp) intrinsic(fn *ssa.Function, args []Value) (Value, bool) {
	if fn.Pkg != nil && in.repoPkgs[fn.Pkg] {
		if isVF(fn) && fn.Blocks != nil && in.isVFIntrinsic(fn.Name()) {
			return in.vf(fn, args), true
		}
		return nil, false
	}
	name := fn.String()
	if v, ok := in.syncIntrinsic(name, args); ok {
		in.res.Intrinsics[name]++
		return v, true
	}
	v, ok := in.stdIntrinsic(fn, name, args)
	if ok {
		in.res.Intrinsics[name]++
	}
	return v, ok
}

var vfNames = map[string]bool{"vfInt": true, "vfPick": true, "vfU8": true, "vfU16": true, "vfU32": true, "vfU64": true, "vfI8": true, "vfI16": true, "vfI32": true, "vfI64": true,
	"vfBool": true, "vfBytes": true, "vfString": true, "vfAssume": true, "vfAssert": true, "vfReach": true, "vfKnown": true, "vfObserve": true,
	"vfThorough": true, "vfNative": true, "vfBound": true, "vfLoopBound": true, "vfExpectPanic": true, "vfUnwindIsViolation": true,
	"vfConcurrent": true, "vfSettle": true, "vfAllocBytes": true, "vfRepeat": true, "vfFixedMapOrder": true, "vfErrMentions": true, "vfAllocBytesIn": true, "vfAssertDeepEqual": true, "vfIgnorePanics": true, "vfSmallLen": true, "vfSeqCap": true, "vfDeepEqual": true, "vfIsErrorf": true}

func (in *Interp) isVFIntrinsic(n string) bool { return vfNames[n] }

func (in *Interp) stdIntrinsic(fn *ssa.Function, name string, args []Value) (Value, bool) {
	if strings.Contains(name, "reflect.") {
		if v, ok := in.reflectIntrinsic(name, args); ok {
			in.res.Intrinsics[name]++
			return v, true
		}
	}
	switch name {
	case "log.Printf", "log.Println", "fmt.Println", "fmt.Printf":
		return in.zero(fn.Signature.Results()), true
	case "fmt.Errorf":
		eo := &ErrObj{format: strConst(args[0].(*StrV))}
		va := args[1].(*SliceG)
		nverb := 0
		f := eo.format
		for i := 0; i+1 < len(f); i++ {
			if f[i] == '%' {
				if f[i+1] == '%' {
					i++
					continue
				}
				// skip flags/width
				j := i + 1
				for j < len(f) && strings.ContainsRune("+-# 0123456789.", rune(f[j])) {
					j++
				}
				if j < len(f) && f[j] == 'w' && nverb < va.len {
					if w, ok := (*va.cells)[va.off+nverb].v.(*IfaceV); ok && w != nil {
						eo.wrapped = w
					}
				}
				nverb++
				i = j
			}
		}
		for i := 0; i < va.len; i++ {
			eo.args = append(eo.args, (*va.cells)[va.off+i].v)
		}
		return in.errIface(eo), true
	case "errors.Is":
		e, _ := args[0].(*IfaceV)
		t, _ := args[1].(*IfaceV)
		return in.errorsIs(e, t), true
	case "errors.Unwrap":
		e, _ := args[0].(*IfaceV)
		if e == nil {
			return (*IfaceV)(nil), true
		}
		return in.unwrapErr(e), true
	case "errors.As":
		e, _ := args[0].(*IfaceV)
		tp := args[1].(*IfaceV) // pointer to target variable
		ptr := tp.val.(*PtrV)
		tt := tp.typ.(*types.Pointer).Elem()
		for depth := 0; e != nil && depth < 20; depth++ {
			ok := false
			if _, isI := tt.Underlying().(*types.Interface); isI {
				ok = types.Implements(e.typ, tt.Underlying().(*types.Interface))
				if ok {
					in.store(ptr, e)
				}
			} else if types.Identical(e.typ, tt) {
				ok = true
				in.store(ptr, e.val)
			}
			if ok {
				return Bool(true), true
			}
			e = in.unwrapErr(e)
		}
		return Bool(false), true
	case "reflect.TypeOf", "reflect.SliceOf":
		return &IfaceV{typ: in.fmtErrType(), val: &OpaqueV{tag: "reflect.Type"}}, true
	case "fmt.Sprintf", "fmt.Sprint":
		return in.sprintf(args), true
	case "strconv.Itoa":
		return in.itoa(args[0].(*Term)), true
	case "internal/bytealg.MakeNoZero":
		n := args[0].(*Term)
		return &SliceV{obj: &ArrObj{node: zeroArr(8), ew: 8}, off: IX(0), len: n, cap: n}, true
	case "(*strings.Builder).String":
		pv, _ := args[0].(*PtrV)
		if pv == nil || pv.cell == nil {
			in.goPanic("nil *strings.Builder")
		}
		so := pv.cell.v.(*StructObj)
		st := fn.Signature.Recv().Type().(*types.Pointer).Elem().Underlying().(*types.Struct)
		for k := 0; k < st.NumFields(); k++ {
			if st.Field(k).Name() == "buf" {
				sl, _ := so.f[k].v.(*SliceV)
				if sl == nil || sl.obj == nil {
					return litStr(""), true
				}
				return &StrV{node: sl.obj.node, off: sl.off, len: sl.len}, true
			}
		}
		in.unsupported("strings.Builder layout")
	case "internal/abi.NoEscape":
		return args[0], true
	case "internal/stringslite.Clone", "strings.Clone":
		return args[0], true
	case "strconv.ParseInt":
		base, ok1 := constInt(args[1].(*Term))
		bits, ok2 := constInt(args[2].(*Term))
		if !ok1 || !ok2 || base != 10 || bits != 64 {
			in.unsupported("strconv.ParseInt with base/bitSize other than 10/64")
		}
		return in.atoi(args[0].(*StrV)), true
	case "strconv.Atoi":
		return in.atoi(args[0].(*StrV)), true
	case "context.Background", "context.TODO":
		if f := in.harnessFunc("vfCtxBackground"); f != nil {
			return in.callFunc(&FuncV{fn: f}, nil), true
		}
	case "context.WithCancel":
		if f := in.harnessFunc("vfCtxWithCancel"); f != nil {
			return in.callFunc(&FuncV{fn: f}, args), true
		}
	case "context.WithTimeout":
		if f := in.harnessFunc("vfCtxWithTimeout"); f != nil {
			return in.callFunc(&FuncV{fn: f}, args), true
		}
	// crypto and PEM/X.509 parsing are replaced by deterministic stubs written in
	// the harness (vf_crypto.go): usable key / unusable key, opaque ciphertexts
	case "encoding/pem.Decode":
		if f := in.harnessFunc("vfPemDecode"); f != nil {
			return in.callFunc(&FuncV{fn: f}, args), true
		}
	case "crypto/x509.ParsePKCS1PublicKey":
		if f := in.harnessFunc("vfParsePKCS1PublicKey"); f != nil {
			return in.callFunc(&FuncV{fn: f}, args), true
		}
	case "crypto/rsa.EncryptOAEP":
		if f := in.harnessFunc("vfEncryptOAEP"); f != nil {
			return in.callFunc(&FuncV{fn: f}, []Value{args[2], args[3], args[4]}), true
		}
	case "crypto/sha1.New":
		return &IfaceV{typ: in.fmtErrType(), val: &OpaqueV{tag: "sha1"}}, true
	case "crypto/rand.Read":
		if f := in.harnessFunc("vfRandRead"); f != nil {
			return in.callFunc(&FuncV{fn: f}, args), true
		}
	}
	if strings.HasSuffix(name, ".init") && fn != in.runningInit {
		return nil, true
	}
	if fn == in.runningInit {
		return nil, false
	}
	return in.stdIntrinsic2(fn, name, args)
}

// harnessFunc looks up a model function written in Go in the harness runtime
// of the package under test.
func (in *Interp) harnessFunc(name string) *ssa.Function {
	if in.harnessPkg == nil {
		return nil
	}
	return in.harnessPkg.Func(name)
}

var fmtErrT types.Type

func (in *Interp) fmtErrType() types.Type {
	if fmtErrT == nil {
		fmtErrT = types.NewPointer(types.NewNamed(types.NewTypeName(0, nil, "fmtErr", nil), types.NewStruct(nil, nil), nil))
	}
	return fmtErrT
}

// sprintf: exact for the verbs %s %d %v (optional 0 flag and width) applied to
// strings, integers and *big.Int; any other format yields an opaque text tagged
// with the format.
func (in *Interp) sprintf(args []Value) Value {
	f := "<sprint>"
	s, ok := args[0].(*StrV)
	if !ok {
		return litStr("<" + f + ">")
	}
	if _, isConst := constInt(s.len); !isConst {
		return litStr("<dynamic format>")
	}
	f = strConst(s)
	va := args[1].(*SliceG)
	var parts []*StrV
	lit := ""
	flush := func() {
		if lit != "" {
			parts = append(parts, litStr(lit))
			lit = ""
		}
	}
	ai := 0
	for i := 0; i < len(f); i++ {
		if f[i] != '%' {
			lit += string(f[i])
			continue
		}
		i++
		if i >= len(f) {
			return litStr("<" + f + ">")
		}
		if f[i] == '%' {
			lit += "%"
			continue
		}
		zero := false
		width := 0
		for i < len(f) && f[i] == '0' {
			zero = true
			i++
		}
		for i < len(f) && f[i] >= '0' && f[i] <= '9' {
			width = width*10 + int(f[i]-'0')
			i++
		}
		if i >= len(f) || ai >= va.len {
			return litStr("<" + f + ">")
		}
		verb := f[i]
		iv, _ := (*va.cells)[va.off+ai].v.(*IfaceV)
		ai++
		if iv == nil || (verb != 's' && verb != 'd' && verb != 'v' && verb != 'q') {
			return litStr("<" + f + ">")
		}
		if ov, isRef := iv.val.(*OpaqueV); isRef && ov.ref != nil {
			// a reflect.Value prints as the value it holds
			iv = &IfaceV{typ: ov.ref.typ, val: ov.ref.cell.v}
		}
		if _, isStr := iv.val.(*StrV); (verb == 'q') != isStr && verb == 'q' {
			return litStr("<" + f + ">")
		}
		var piece *StrV
		switch x := iv.val.(type) {
		case *StrV:
			piece = x
			if verb == 'q' {
				// strconv.Quote is the identity plus surrounding quotes on printable
				// ASCII without '"' and '\\'; other text is outside the model
				n := in.strLenConst(x, "Sprintf %q")
				for k := 0; k < n; k++ {
					b := x.at(k)
					safe := AndN(Cmp("bvule", BV(8, 0x20), b), Cmp("bvult", b, BV(8, 0x7F)), Not(Eq(b, BV(8, '"'))), Not(Eq(b, BV(8, '\\'))))
					if !in.branch(safe) {
						in.unsupported("%%q of a string with bytes outside printable ASCII minus quote and backslash")
					}
				}
				piece = in.strConcat(in.strConcat(litStr("\""), x), litStr("\""))
			}
		case *Term:
			b, isB := iv.typ.Underlying().(*types.Basic)
			if isB && b.Info()&types.IsBoolean != 0 && verb == 'v' {
				if in.branch(x) {
					piece = litStr("true")
				} else {
					piece = litStr("false")
				}
				break
			}
			if !isB || b.Info()&types.IsInteger == 0 || verb == 's' {
				return litStr("<" + f + ">")
			}
			piece = in.itoa(BV2Int(x, isSigned(iv.typ)))
		case *PtrV:
			if x.cell == nil {
				return litStr("<" + f + ">")
			}
			bo, isBig := x.cell.v.(*BigObj)
			if !isBig {
				return litStr("<" + f + ">")
			}
			piece = in.bigStringObj(bo)
		default:
			return litStr("<" + f + ">")
		}
		if width > 0 {
			n := in.strLenConst(piece, "Sprintf width")
			if n < width {
				pad := " "
				if zero {
					pad = "0"
				}
				p := ""
				for k := n; k < width; k++ {
					p += pad
				}
				piece = in.strConcat(litStr(p), piece)
			}
		}
		flush()
		parts = append(parts, piece)
	}
	flush()
	r := litStr("")
	for _, p := range parts {
		r = in.strConcat(r, p)
	}
	return r
}

func (in *Interp) strConcat(sa, sb *StrV) *StrV {
	n := zeroArr(8).Copy(IX(0), sa.node, sa.off, sa.len).Copy(sa.len, sb.node, sb.off, sb.len)
	return &StrV{node: n, off: IX(0), len: Bin("bvadd", sa.len, sb.len)}
}

// itoa: decimal rendering of an int term. Concrete values are exact; symbolic
// values are case-split on the number of digits (non-negative, < 10^7).
func (in *Interp) itoa(t *Term) *StrV {
	if t.w != SortInt {
		t = BV2Int(t, true)
	}
	if t.IsConst() {
		return litStr(t.c.String())
	}
	if !in.branch(ICmp("<=", IntC(0), t)) {
		return in.strConcat(litStr("-"), in.itoa(IArith("-", IntC(0), t)))
	}
	pow := int64(10)
	for nd := 1; nd <= 7; nd++ {
		if in.branch(ICmp("<", t, IntC(pow))) {
			// the digits are fresh variables tied to t by the (unique) positional
			// decomposition - linear for the solver, unlike div/mod chains; atoi
			// recognises the digit bytes again through digitTags
			node := zeroArr(8)
			p := pow / 10
			sum := IntC(0)
			for i := 0; i < nd; i++ {
				in.fresh++
				d := IntVarR(fmt.Sprintf("digit!%d", in.fresh), big.NewInt(0), big.NewInt(9))
				b := Int2BV(IArith("+", d, IntC('0')), 8)
				in.digitTags[b] = d
				node = node.Store(IX(int64(i)), b)
				sum = IArith("+", sum, IArith("*", d, IntC(p)))
				p /= 10
			}
			in.assume(Eq(t, sum))
			s := &StrV{node: node, off: IX(0), len: IX(int64(nd))}
			in.itoaTags[s.node] = t
			return s
		}
		pow *= 10
	}
	in.unsupported("itoa of symbolic value >= 10^7")
	return nil
}

// atoi: exact for concrete strings and for strings produced by itoa; otherwise
// parses concrete-length strings digit by digit.
func (in *Interp) atoi(s *StrV) Value {
	errV := func() Value {
		return TupleV{IX(0), in.errIface(&ErrObj{format: "strconv.Atoi: invalid syntax"})}
	}
	if t, ok := in.itoaTags[s.node]; ok && s.off.IsConst() && s.off.Int() == 0 {
		return TupleV{t, (*IfaceV)(nil)}
	}
	n, ok := constInt(s.len)
	if !ok {
		// case split on short lengths; longer numerals are over-approximated by an
		// arbitrary result (value or error)
		conds := make([]*Term, 10)
		for i := 0; i < 9; i++ {
			conds[i] = Eq(s.len, IX(int64(i)))
		}
		conds[9] = ICmp("<", IX(8), s.len)
		n = in.choose(conds)
		if n == 9 {
			in.intNondet++
			if in.chooseN("atoi-long", 2) == 0 {
				return errV()
			}
			in.fresh++
			return TupleV{IntVarR(fmt.Sprintf("atoi!%d", in.fresh), minInt64, maxInt64), (*IfaceV)(nil)}
		}
	}
	if n == 0 || n > 18 {
		return errV()
	}
	v := IX(0)
	neg := false
	for i := 0; i < n; i++ {
		b := s.node.Read(Bin("bvadd", s.off, IX(int64(i))))
		if i == 0 && n > 1 {
			if in.branch(Eq(b, BV(8, '-'))) {
				neg = true
				continue
			}
			if in.branch(Eq(b, BV(8, '+'))) {
				continue
			}
		}
		if d, ok := in.digitTags[b]; ok {
			v = IArith("+", IArith("*", v, IntC(10)), d)
			continue
		}
		isDigit := And(Cmp("bvule", BV(8, '0'), b), Cmp("bvule", b, BV(8, '9')))
		if !in.branch(isDigit) {
			return errV()
		}
		v = IArith("+", IArith("*", v, IntC(10)), BV2Int(Bin("bvsub", b, BV(8, '0')), false))
	}
	if neg {
		v = IArith("-", IntC(0), v)
	}
	return TupleV{v, (*IfaceV)(nil)}
}
