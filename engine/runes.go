package main

// UTF-8 encoding of a symbolic rune: the executor branches on the range of the
// code point, the bytes stay symbolic bit-vector terms.
func (in *Interp) encodeRune(rb *Term) []*Term {
	bits := func(hi, lo int, or int64) *Term {
		return Bin("bvor", BV(8, or), ZExt(Extract(rb, hi, lo), 8))
	}
	bad := []*Term{BV(8, 0xEF), BV(8, 0xBF), BV(8, 0xBD)}
	ult := func(v int64) *Term { return Cmp("bvult", rb, BV(32, v)) }
	switch {
	case in.branch(ult(0x80)):
		return []*Term{Extract(rb, 7, 0)}
	case in.branch(ult(0x800)):
		return []*Term{bits(10, 6, 0xC0), bits(5, 0, 0x80)}
	case in.branch(And(Cmp("bvule", BV(32, 0xD800), rb), Cmp("bvule", rb, BV(32, 0xDFFF)))):
		return bad
	case in.branch(ult(0x10000)):
		return []*Term{bits(15, 12, 0xE0), bits(11, 6, 0x80), bits(5, 0, 0x80)}
	case in.branch(Cmp("bvule", rb, BV(32, 0x10FFFF))):
		return []*Term{bits(20, 18, 0xF0), bits(17, 12, 0x80), bits(11, 6, 0x80), bits(5, 0, 0x80)}
	}
	return bad // negative (as unsigned: huge) or beyond U+10FFFF
}

func bytesToStr(bs []*Term) *StrV {
	n := zeroArr(8)
	for i, b := range bs {
		n = n.Store(IX(int64(i)), b)
	}
	return &StrV{node: n, off: IX(0), len: IX(int64(len(bs)))}
}

func (in *Interp) runeToString(r *Term) Value {
	if r.IsConst() {
		return litStr(string(rune(r.Int())))
	}
	// r is the integer value of the converted operand; values outside int32 encode
	// as U+FFFD like every invalid code point
	if !in.branch(And(ICmp("<=", IntC(0), r), ICmp("<=", r, IntC(0x10FFFF)))) {
		return litStr("�")
	}
	return bytesToStr(in.encodeRune(Int2BV(r, 32)))
}

func (in *Interp) stringToRunes(s *StrV) Value {
	n := in.strLenConst(s, "[]rune(string)")
	node := zeroArr(32)
	k := 0
	for i := 0; i < n; {
		r, w := in.decodeRune(s, i, n)
		node = node.Store(IX(int64(k)), r)
		k++
		i += w
	}
	return &SliceV{obj: &ArrObj{node: node, ew: 32}, off: IX(0), len: IX(int64(k)), cap: IX(int64(k))}
}

func (in *Interp) runesToString(s *SliceV) Value {
	n, ok := constInt(s.len)
	if !ok {
		in.unsupported("string([]rune) of symbolic length")
	}
	var bs []*Term
	for i := 0; i < n; i++ {
		bs = append(bs, in.encodeRune(s.obj.node.Read(IArith("+", s.off, IX(int64(i)))))...)
	}
	return bytesToStr(bs)
}
