package main

import (

	"golang.org/x/tools/go/ssa"
)

func strConst(s *StrV) string {
	n, _ := constInt(s.len)
	b := make([]byte, n)
	for i := range b {
		t := s.node.Read(Bin("bvadd", s.off, IX(int64(i))))
		if t.IsConst() {
			b[i] = byte(t.Uint())
		} else {
			b[i] = '?'
		}
	}
	return string(b)
}

func (in *Interp) builtin(name string, args []Value, c *ssa.CallCommon) Value {
	switch name {
	case "len":
		switch a := args[0].(type) {
		case *SliceV:
			return a.len
		case *StrV:
			return a.len
		case *SliceG:
			return IX(int64(a.len))
		case *MapV:
			if a == nil {
				return IX(0)
			}
			return IX(int64(len(a.e)))
		case *ChanV:
			if a == nil {
				return IX(0)
			}
			return IX(int64(len(a.q)))
		}
	case "cap":
		switch a := args[0].(type) {
		case *SliceV:
			return a.cap
		case *SliceG:
			return IX(int64(a.cap))
		}
	case "copy":
		d := args[0].(*SliceV)
		var sn *ArrNode
		var so, sl *Term
		switch s := args[1].(type) {
		case *SliceV:
			sn, so, sl = s.obj.node, s.off, s.len
		case *StrV:
			sn, so, sl = s.node, s.off, s.len
		}
		n := Ite(Cmp("bvslt", d.len, sl), d.len, sl)
		d.obj.node = d.obj.node.Copy(d.off, sn, so, n)
		return n
	case "append":
		switch d := args[0].(type) {
		case *SliceG:
			s := args[1].(*SliceG)
			cells := append([]*Cell{}, (*d.cells)[d.off:d.off+d.len]...)
			for _, c := range (*s.cells)[s.off : s.off+s.len] {
				cells = append(cells, &Cell{copyVal(c.v)})
			}
			return &SliceG{cells: &cells, len: len(cells), cap: len(cells)}
		case *SliceV:
			var sn *ArrNode
			var so, sl *Term
			switch s := args[1].(type) {
			case *SliceV:
				sn, so, sl = s.obj.node, s.off, s.len
			case *StrV:
				sn, so, sl = s.node, s.off, s.len
			}
			nl := Bin("bvadd", d.len, sl)
			if in.branch(Cmp("bvsle", nl, d.cap)) {
				d.obj.node = d.obj.node.Copy(Bin("bvadd", d.off, d.len), sn, so, sl)
				return &SliceV{obj: d.obj, off: d.off, len: nl, cap: d.cap}
			}
			node := zeroArr(d.obj.ew).Copy(IX(0), d.obj.node, d.off, d.len).Copy(d.len, sn, so, sl)
			in.allocs = append(in.allocs, allocRec{IArith("*", nl, IntC(int64(maxInt(d.obj.ew, 8)/8))), "append"})
			// modelling choice: the new capacity equals the needed length (Go guarantees only >=)
			return &SliceV{obj: &ArrObj{node: node, ew: d.obj.ew}, off: IX(0), len: nl, cap: nl}
		}
	case "ssa:wrapnilchk":
		if p, ok := args[0].(*PtrV); ok && p.cell == nil && p.arr == nil {
			in.goPanic("value method called using nil pointer")
		}
		return args[0]
	case "close":
		ch, _ := args[0].(*ChanV)
		if ch == nil || ch.closed {
			in.goPanic("close of nil or closed channel")
		}
		ch.closed = true
		return nil
	case "delete":
		m := args[0].(*MapV)
		for i, e := range m.e {
			if in.valEq(e.k, args[1]).IsTrue() {
				m.e = append(m.e[:i:i], m.e[i+1:]...)
				break
			}
		}
		return nil
	}
	in.unsupported("builtin %s(%T)", name, args[0])
	return nil
}
