package main

import (
	"go/token"
	"go/types"
	"math"
	"math/big"

	"golang.org/x/tools/go/ssa"
)

// stdIntrinsic2 holds the models added for value codecs, strings, crypto.
func (in *Interp) stdIntrinsic2(fn *ssa.Function, name string, args []Value) (Value, bool) {
	if v, ok := in.bufIntrinsic(name, args); ok {
		return v, true
	}
	if v, ok := in.bigIntrinsic(name, args); ok {
		return v, true
	}
	if v, ok := in.stringsIntrinsic(name, args); ok {
		return v, true
	}
	if v, ok := in.timeIntrinsic(name, args); ok {
		return v, true
	}
	switch name {
	case "encoding/binary.Write":
		return in.binaryWrite(args), true
	case "encoding/binary.Read":
		return in.binaryRead(args), true
	case "math.Float32frombits", "math.Float64frombits", "math.Float32bits", "math.Float64bits":
		return args[0], true // floats that are only moved around are their bit patterns
	case "math.Round":
		r := bitsToReal(args[0].(*Term))
		if r == nil {
			in.unsupported("math.Round of an opaque bit pattern")
		}
		// half away from zero
		half := mk("/", SortReal, "", nil, RealC(1), RealC(2))
		pos := realFloor(mk("+", SortReal, "", nil, r, half))
		neg := realCeil(mk("-", SortReal, "", nil, r, half))
		return ToReal(Ite(realNonNeg(r), pos, neg)), true
	case "math.Ceil", "math.Floor":
		r := bitsToReal(args[0].(*Term))
		if r == nil {
			in.unsupported("%s of an opaque bit pattern", name)
		}
		if name == "math.Ceil" {
			return ToReal(realCeil(r)), true
		}
		return ToReal(realFloor(r)), true
	case "github.com/hashicorp/go-version.NewVersion":
		// over-approximation: parsing may succeed or fail for any input
		in.intNondet++
		if in.chooseN("semver-parse", 2) == 0 {
			return TupleV{&PtrV{cell: &Cell{&OpaqueV{tag: "semver"}}}, (*IfaceV)(nil)}, true
		}
		return TupleV{&PtrV{}, in.errIface(&ErrObj{format: "Malformed version"})}, true
	case "(*github.com/hashicorp/go-version.Version).Compare":
		in.intNondet++
		return IX(int64(in.chooseN("semver-compare", 3) - 1)), true
	}
	return nil, false
}

// invoke calls method name on the dynamic value of an interface.
func (in *Interp) invoke(iv *IfaceV, name string, args ...Value) Value {
	if iv == nil {
		in.goPanic("invoke " + name + " on nil interface")
	}
	m := in.findMethod(iv.typ, name)
	if m == nil {
		in.unsupported("method %s not found on %s", name, iv.typ)
	}
	return in.callFunc(&FuncV{fn: m}, append([]Value{iv.val}, args...))
}

func (in *Interp) bufOf(p Value) *BufObj {
	pp, _ := p.(*PtrV)
	if pp == nil || pp.cell == nil {
		in.goPanic("nil *bytes.Buffer")
	}
	b, ok := pp.cell.v.(*BufObj)
	if !ok {
		in.unsupported("bytes.Buffer cell holds %T", pp.cell.v)
	}
	return b
}

func (b *BufObj) rdOff() *Term {
	if b.rd == nil {
		return IX(0)
	}
	return b.rd
}

func (in *Interp) bufAppend(b *BufObj, node *ArrNode, off, n *Term) {
	nn := zeroArr(8).Copy(IX(0), b.s.obj.node, b.s.off, b.s.len).Copy(b.s.len, node, off, n)
	nl := IArith("+", b.s.len, n)
	b.s = &SliceV{obj: &ArrObj{node: nn, ew: 8}, off: IX(0), len: nl, cap: nl}
}

func (in *Interp) bufIntrinsic(name string, args []Value) (Value, bool) {
	nilErr := (*IfaceV)(nil)
	switch name {
	case "bytes.NewBuffer":
		s := args[0].(*SliceV)
		return &PtrV{cell: &Cell{&BufObj{s: s}}}, true
	case "(*bytes.Buffer).Write":
		b, s := in.bufOf(args[0]), args[1].(*SliceV)
		in.bufAppend(b, s.obj.node, s.off, s.len)
		return TupleV{s.len, nilErr}, true
	case "(*bytes.Buffer).WriteString":
		b, s := in.bufOf(args[0]), args[1].(*StrV)
		in.bufAppend(b, s.node, s.off, s.len)
		return TupleV{s.len, nilErr}, true
	case "(*bytes.Buffer).WriteByte":
		b := in.bufOf(args[0])
		in.bufAppend(b, zeroArr(8).Store(IX(0), args[1].(*Term)), IX(0), IX(1))
		return nilErr, true
	case "(*bytes.Buffer).Len":
		b := in.bufOf(args[0])
		return IArith("-", b.s.len, b.rdOff()), true
	case "(*bytes.Buffer).Bytes":
		b := in.bufOf(args[0])
		n := IArith("-", b.s.len, b.rdOff())
		return &SliceV{obj: b.s.obj, off: IArith("+", b.s.off, b.rdOff()), len: n, cap: n}, true
	case "(*bytes.Buffer).String":
		b := in.bufOf(args[0])
		return &StrV{node: b.s.obj.node, off: IArith("+", b.s.off, b.rdOff()), len: IArith("-", b.s.len, b.rdOff())}, true
	case "(*bytes.Buffer).Read":
		b, p := in.bufOf(args[0]), args[1].(*SliceV)
		avail := IArith("-", b.s.len, b.rdOff())
		if in.branch(ICmp("<=", avail, IntC(0))) {
			if in.branch(Eq(p.len, IntC(0))) {
				return TupleV{IX(0), nilErr}, true
			}
			return TupleV{IX(0), in.load(&PtrV{cell: in.stdGlobal("io", "EOF")})}, true
		}
		n := Ite(ICmp("<", avail, p.len), avail, p.len)
		p.obj.node = p.obj.node.Copy(p.off, b.s.obj.node, IArith("+", b.s.off, b.rdOff()), n)
		b.rd = IArith("+", b.rdOff(), n)
		return TupleV{n, nilErr}, true
	case "(*bytes.Buffer).ReadFrom":
		b, r := in.bufOf(args[0]), args[1].(*IfaceV)
		total := IX(0)
		for it := 0; ; it++ {
			if it > in.loopBound {
				in.end("unwind", "bytes.Buffer.ReadFrom does not terminate within the loop bound")
			}
			win := &SliceV{obj: &ArrObj{node: zeroArr(8), ew: 8}, off: IX(0), len: IX(512), cap: IX(512)}
			res := in.invoke(r, "Read", win).(TupleV)
			m := res[0].(*Term)
			if !in.guard(And(ICmp("<=", IntC(0), m), ICmp("<=", m, IntC(512)))) {
				in.goPanic("bytes.Buffer.ReadFrom: reader returned invalid count")
			}
			in.bufAppend(b, win.obj.node, IX(0), m)
			total = IArith("+", total, m)
			e, _ := res[1].(*IfaceV)
			if e != nil {
				eof := in.load(&PtrV{cell: in.stdGlobal("io", "EOF")}).(*IfaceV)
				if in.valEq(e, eof).IsTrue() {
					return TupleV{in.int64Of(total), nilErr}, true
				}
				return TupleV{in.int64Of(total), e}, true
			}
		}
	}
	return nil, false
}

// int64Of converts an Int term to the 64-bit vector used for Go int64.
func (in *Interp) int64Of(t *Term) *Term { return t }

// stdGlobal returns the cell of a standard-library package-level variable.
func (in *Interp) stdGlobal(pkg, name string) *Cell {
	p := in.prog.ImportedPackage(pkg)
	if p == nil {
		in.unsupported("package %s not loaded", pkg)
	}
	g, ok := p.Members[name].(*ssa.Global)
	if !ok {
		in.unsupported("no global %s.%s", pkg, name)
	}
	return in.global(g)
}

// Floats come in two forms: opaque bit patterns (bit-vectors of width 32/64:
// data that is only moved and compared) and Real terms (values derived from
// integers by conversion, + - * /, Ceil/Floor/Round). Real arithmetic is exact;
// it coincides with IEEE-754 double arithmetic as long as every intermediate
// value is an integer below 2^53 or such an integer divided by a power of two,
// which is what the code under test does (math.Ceil(float64(n)/8)).
func bitsToReal(t *Term) *Term {
	if t.w == SortReal {
		return t
	}
	if t.IsConst() {
		var f float64
		if t.w == 64 {
			f = math.Float64frombits(t.c.Uint64())
		} else {
			f = float64(math.Float32frombits(uint32(t.c.Uint64())))
		}
		if f == math.Trunc(f) && math.Abs(f) < 1e15 {
			return mk("const", SortReal, "", big.NewInt(int64(f)))
		}
		// dyadic rationals: scale to an integer
		for k := 1; k <= 20; k++ {
			g := f * float64(int64(1)<<uint(k))
			if g == math.Trunc(g) && math.Abs(g) < 1e15 {
				return mk("/", SortReal, "", nil, mk("const", SortReal, "", big.NewInt(int64(g))), mk("const", SortReal, "", big.NewInt(int64(1)<<uint(k))))
			}
		}
	}
	return nil
}

// ratOf recognises constant Real terms.
func ratOf(t *Term) (*big.Rat, bool) {
	if t == nil || t.w != SortReal {
		return nil, false
	}
	if t.op == "const" {
		return new(big.Rat).SetInt(t.c), true
	}
	if t.op == "/" && t.args[0].op == "const" && t.args[1].op == "const" && t.args[1].c.Sign() != 0 {
		return new(big.Rat).SetFrac(t.args[0].c, t.args[1].c), true
	}
	return nil, false
}
func realConst(r *big.Rat) *Term {
	if r.IsInt() {
		return mk("const", SortReal, "", new(big.Int).Set(r.Num()))
	}
	return mk("/", SortReal, "", nil, mk("const", SortReal, "", new(big.Int).Set(r.Num())), mk("const", SortReal, "", new(big.Int).Set(r.Denom())))
}
func ratFloor(r *big.Rat) *big.Int {
	q, _ := floorDivMod(r.Num(), r.Denom())
	return q
}

func (in *Interp) floatBinop(op token.Token, x, y *Term, t types.Type) Value {
	rx, ry := bitsToReal(x), bitsToReal(y)
	if a, ok := ratOf(rx); ok {
		if b, ok := ratOf(ry); ok {
			switch op {
			case token.ADD:
				return realConst(new(big.Rat).Add(a, b))
			case token.SUB:
				return realConst(new(big.Rat).Sub(a, b))
			case token.MUL:
				return realConst(new(big.Rat).Mul(a, b))
			case token.QUO:
				if b.Sign() != 0 {
					return realConst(new(big.Rat).Quo(a, b))
				}
			case token.LSS:
				return Bool(a.Cmp(b) < 0)
			case token.LEQ:
				return Bool(a.Cmp(b) <= 0)
			case token.GTR:
				return Bool(a.Cmp(b) > 0)
			case token.GEQ:
				return Bool(a.Cmp(b) >= 0)
			case token.EQL:
				return Bool(a.Cmp(b) == 0)
			}
		}
	}
	if x.w != SortReal && y.w != SortReal {
		// two opaque bit patterns: only (in)equality of identical encodings is meaningful
		if op == token.EQL {
			return Eq(x, y)
		}
	}
	if rx == nil || ry == nil {
		in.unsupported("float arithmetic %s on opaque bit patterns", op)
	}
	switch op {
	case token.ADD:
		return mk("+", SortReal, "", nil, rx, ry)
	case token.SUB:
		return mk("-", SortReal, "", nil, rx, ry)
	case token.MUL:
		return mk("*", SortReal, "", nil, rx, ry)
	case token.QUO:
		return mk("/", SortReal, "", nil, rx, ry)
	case token.LSS:
		return mk("<", 0, "", nil, rx, ry)
	case token.LEQ:
		return mk("<=", 0, "", nil, rx, ry)
	case token.GTR:
		return mk("<", 0, "", nil, ry, rx)
	case token.GEQ:
		return mk("<=", 0, "", nil, ry, rx)
	case token.EQL:
		return Eq(rx, ry)
	}
	in.unsupported("float arithmetic %s", op)
	return nil
}

// ratAffine recognises a real term of the form a*to_real(x) + b with rational
// constants a, b and an Int term x.
func ratAffine(t *Term) (x *Term, a, b *big.Rat, ok bool) {
	if t == nil || t.w != SortReal {
		return nil, nil, nil, false
	}
	if r, isC := ratOf(t); isC {
		return nil, new(big.Rat), r, true
	}
	switch t.op {
	case "to_real":
		return t.args[0], big.NewRat(1, 1), new(big.Rat), true
	case "+", "-":
		x1, a1, b1, ok1 := ratAffine(t.args[0])
		x2, a2, b2, ok2 := ratAffine(t.args[1])
		if !ok1 || !ok2 || (x1 != nil && x2 != nil && x1 != x2) {
			return nil, nil, nil, false
		}
		if t.op == "-" {
			a2, b2 = new(big.Rat).Neg(a2), new(big.Rat).Neg(b2)
		}
		if x1 == nil {
			x1 = x2
		}
		return x1, new(big.Rat).Add(a1, a2), new(big.Rat).Add(b1, b2), true
	case "*":
		for k := 0; k < 2; k++ {
			if c, isC := ratOf(t.args[k]); isC {
				if x1, a1, b1, ok1 := ratAffine(t.args[1-k]); ok1 {
					return x1, new(big.Rat).Mul(a1, c), new(big.Rat).Mul(b1, c), true
				}
			}
		}
	case "/":
		if c, isC := ratOf(t.args[1]); isC && c.Sign() != 0 {
			if x1, a1, b1, ok1 := ratAffine(t.args[0]); ok1 {
				return x1, new(big.Rat).Quo(a1, c), new(big.Rat).Quo(b1, c), true
			}
		}
	}
	return nil, nil, nil, false
}

// affineFloor: floor(a*x + b) as an integer division, (x*p + c) div q with q > 0
func affineFloor(x *Term, a, b *big.Rat) *Term {
	q := new(big.Int).Mul(a.Denom(), b.Denom())
	p := new(big.Int).Mul(a.Num(), b.Denom())
	c := new(big.Int).Mul(b.Num(), a.Denom())
	return IArith("div", IArith("+", IArith("*", x, IntBig(p)), IntBig(c)), IntBig(q))
}

func realFloor(x *Term) *Term { // SMT to_int is floor
	if r, ok := ratOf(x); ok {
		return IntBig(ratFloor(r))
	}
	if v, a, b, ok := ratAffine(x); ok && v != nil {
		return affineFloor(v, a, b)
	}
	return ToInt(x)
}
func realCeil(x *Term) *Term {
	if r, ok := ratOf(x); ok {
		return IntBig(new(big.Int).Neg(ratFloor(new(big.Rat).Neg(r))))
	}
	if v, a, b, ok := ratAffine(x); ok && v != nil {
		return IArith("-", IntC(0), affineFloor(v, new(big.Rat).Neg(a), new(big.Rat).Neg(b)))
	}
	return IArith("-", IntC(0), ToInt(mk("-", SortReal, "", nil, RealC(0), x)))
}

// realNonNeg: 0 <= r, decided on the integer side where r is affine in an Int term
func realNonNeg(r *Term) *Term {
	if v, a, b, ok := ratAffine(r); ok && v != nil && a.Sign() != 0 {
		// a*x + b >= 0  <=>  x >= -b/a (a > 0)  or  x <= -b/a (a < 0)
		bound := new(big.Rat).Quo(new(big.Rat).Neg(b), a)
		if a.Sign() > 0 {
			return ICmp("<=", IntBig(new(big.Int).Neg(ratFloor(new(big.Rat).Neg(bound)))), v)
		}
		return ICmp("<=", v, IntBig(ratFloor(bound)))
	}
	return mk("<=", 0, "", nil, RealC(0), r)
}

func (in *Interp) floatConvert(t *Term, from, to types.Type) Value {
	switch {
	case isFloat(from) && isFloat(to):
		if t.w == SortReal || width(from) == width(to) {
			return t
		}
		in.unsupported("float32/float64 conversion of a bit pattern")
	case isFloat(to):
		// integer -> float: exact below 2^53
		i := BV2Int(t, isSigned(from))
		lo, hi := i.bounds()
		lim := new(big.Int).Lsh(big.NewInt(1), 53)
		if lo == nil || hi == nil || lo.CmpAbs(lim) >= 0 || hi.CmpAbs(lim) >= 0 {
			ok := And(ICmp("<", IntBig(new(big.Int).Neg(lim)), i), ICmp("<", i, IntBig(lim)))
			if !in.guard(ok) {
				in.unsupported("int -> float64 conversion of a value that is not exactly representable")
			}
		}
		return ToReal(i)
	case isFloat(from):
		r := bitsToReal(t)
		if r == nil {
			in.unsupported("float -> int conversion of an opaque bit pattern")
		}
		// truncation toward zero
		tr := Ite(realNonNeg(r), realFloor(r), realCeil(r))
		w := width(to)
		if w == SortInt {
			return tr
		}
		return Int2BV(tr, w)
	}
	in.unsupported("float conversion %s -> %s", from, to)
	return nil
}

// runeToString: string(r). Exact UTF-8 for scalar values given concretely; ASCII for symbolic.
// byteOrderIsLittle decides which ByteOrder value the interface holds.
func (in *Interp) byteOrderIsLittle(o Value) bool {
	iv, _ := o.(*IfaceV)
	if iv == nil {
		in.goPanic("nil binary.ByteOrder")
	}
	switch iv.typ.String() {
	case "encoding/binary.littleEndian":
		return true
	case "encoding/binary.bigEndian":
		return false
	}
	in.unsupported("byte order %s", iv.typ)
	return false
}

func scalarBytes(t *Term, little bool) []*Term {
	n := t.w / 8
	bs := make([]*Term, n)
	for i := 0; i < n; i++ {
		b := Extract(t, 8*i+7, 8*i)
		if little {
			bs[i] = b
		} else {
			bs[n-1-i] = b
		}
	}
	return bs
}

// binaryWrite models encoding/binary.Write(w io.Writer, order, data) for the
// fixed-size values the library passes: integers, floats (bit patterns), bools
// and byte slices; anything else is the documented "invalid type" error.
func (in *Interp) binaryWrite(args []Value) Value {
	w, _ := args[0].(*IfaceV)
	little := in.byteOrderIsLittle(args[1])
	data, _ := args[2].(*IfaceV)
	errInvalid := in.errIface(&ErrObj{format: "binary.Write: some values are not fixed-sized"})
	if data == nil {
		return errInvalid
	}
	var out *SliceV
	switch v := data.val.(type) {
	case *Term:
		t := v
		switch {
		case t.w == SortInt:
			if b, ok := data.typ.Underlying().(*types.Basic); ok && b.Kind() == types.Int64 {
				t = Int2BV(t, 64)
			} else {
				return errInvalid // int has no fixed size
			}
		case t.w == 0:
			t = Ite(t, BV(8, 1), BV(8, 0))
		case t.w == SortReal:
			in.unsupported("binary.Write of a computed float")
		}
		node := zeroArr(8)
		for i, b := range scalarBytes(t, little) {
			node = node.Store(IX(int64(i)), b)
		}
		n := IX(int64(t.w / 8))
		out = &SliceV{obj: &ArrObj{node: node, ew: 8}, off: IX(0), len: n, cap: n}
	case *SliceV:
		if v.obj.ew != 8 {
			in.unsupported("binary.Write of a non-byte slice")
		}
		out = v
	default:
		return errInvalid
	}
	res := in.invoke(w, "Write", out).(TupleV)
	if e, _ := res[1].(*IfaceV); e != nil {
		return e
	}
	return (*IfaceV)(nil)
}

// binaryRead models encoding/binary.Read(r io.Reader, order, data) for pointers
// to fixed-size scalars: io.EOF when nothing is left, io.ErrUnexpectedEOF for a
// short read (io.ReadFull contract).
func (in *Interp) binaryRead(args []Value) Value {
	r, _ := args[0].(*IfaceV)
	little := in.byteOrderIsLittle(args[1])
	data, _ := args[2].(*IfaceV)
	if data == nil {
		return in.errIface(&ErrObj{format: "binary.Read: invalid type"})
	}
	ptr, ok := data.val.(*PtrV)
	pt, ok2 := data.typ.(*types.Pointer)
	isI64 := false
	if b, okb := pt.Elem().Underlying().(*types.Basic); ok2 && okb && b.Kind() == types.Int64 {
		isI64 = true
	}
	if !ok || !ok2 || !isScalar(pt.Elem()) || (width(pt.Elem()) == SortInt && !isI64) {
		return in.errIface(&ErrObj{format: "binary.Read: invalid type"})
	}
	w := width(pt.Elem())
	if isI64 {
		w = 64
	}
	if w == 0 {
		w = 8
	}
	n := w / 8
	win := &SliceV{obj: &ArrObj{node: zeroArr(8), ew: 8}, off: IX(0), len: IX(int64(n)), cap: IX(int64(n))}
	got := IX(0)
	// io.ReadFull
	for it := 0; ; it++ {
		if it > n+2 {
			in.unsupported("binary.Read: reader makes no progress")
		}
		part := &SliceV{obj: win.obj, off: got, len: IArith("-", IX(int64(n)), got), cap: IArith("-", IX(int64(n)), got)}
		res := in.invoke(r, "Read", part).(TupleV)
		got = IArith("+", got, res[0].(*Term))
		if in.branch(ICmp("<=", IX(int64(n)), got)) {
			break
		}
		if e, _ := res[1].(*IfaceV); e != nil {
			eof := in.load(&PtrV{cell: in.stdGlobal("io", "EOF")}).(*IfaceV)
			if in.valEq(e, eof).IsTrue() {
				if in.branch(Eq(got, IX(0))) {
					return eof
				}
				return in.load(&PtrV{cell: in.stdGlobal("io", "ErrUnexpectedEOF")})
			}
			return e
		}
	}
	var v *Term
	for i := 0; i < n; i++ {
		k := i
		if !little {
			k = n - 1 - i
		}
		b := win.obj.node.Read(IX(int64(k)))
		if v == nil {
			v = ZExt(b, w)
		} else {
			v = Bin("bvor", v, Bin("bvshl", ZExt(b, w), BV(w, int64(8*i))))
		}
	}
	switch {
	case width(pt.Elem()) == 0:
		in.store(ptr, Not(Eq(v, BV(8, 0))))
	case isI64:
		in.store(ptr, BV2Int(v, true))
	default:
		in.store(ptr, v)
	}
	return (*IfaceV)(nil)
}
