package main

import (
	"golang.org/x/tools/go/ssa"
)

// stdIntrinsic2 holds the models added for value codecs, strings, crypto.
func (in *Interp) stdIntrinsic2(fn *ssa.Function, name string, args []Value) (Value, bool) {
	return nil, false
}
