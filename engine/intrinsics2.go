package main

import (
	"go/token"
	"go/types"

	"golang.org/x/tools/go/ssa"
)

// stdIntrinsic2 holds the models added for value codecs, strings, crypto.
func (in *Interp) stdIntrinsic2(fn *ssa.Function, name string, args []Value) (Value, bool) {
	if v, ok := in.bufIntrinsic(name, args); ok {
		return v, true
	}
	switch name {
	case "github.com/hashicorp/go-version.NewVersion":
		// over-approximation: parsing may succeed or fail for any input
		in.intNondet++
		if in.chooseN("semver-parse", 2) == 0 {
			return TupleV{&PtrV{cell: &Cell{&OpaqueV{tag: "semver"}}}, (*IfaceV)(nil)}, true
		}
		return TupleV{&PtrV{}, in.errIface(&ErrObj{format: "Malformed version"})}, true
	case "(*github.com/hashicorp/go-version.Version).Compare":
		in.intNondet++
		return IX(int64(in.chooseN("semver-compare", 3) - 1)), true
	}
	return nil, false
}

// invoke calls method name on the dynamic value of an interface.
func (in *Interp) invoke(iv *IfaceV, name string, args ...Value) Value {
	if iv == nil {
		in.goPanic("invoke " + name + " on nil interface")
	}
	m := in.findMethod(iv.typ, name)
	if m == nil {
		in.unsupported("method %s not found on %s", name, iv.typ)
	}
	return in.callFunc(&FuncV{fn: m}, append([]Value{iv.val}, args...))
}

func (in *Interp) bufOf(p Value) *BufObj {
	pp, _ := p.(*PtrV)
	if pp == nil || pp.cell == nil {
		in.goPanic("nil *bytes.Buffer")
	}
	b, ok := pp.cell.v.(*BufObj)
	if !ok {
		in.unsupported("bytes.Buffer cell holds %T", pp.cell.v)
	}
	return b
}

func (b *BufObj) rdOff() *Term {
	if b.rd == nil {
		return IX(0)
	}
	return b.rd
}

func (in *Interp) bufAppend(b *BufObj, node *ArrNode, off, n *Term) {
	nn := zeroArr(8).Copy(IX(0), b.s.obj.node, b.s.off, b.s.len).Copy(b.s.len, node, off, n)
	nl := IArith("+", b.s.len, n)
	b.s = &SliceV{obj: &ArrObj{node: nn, ew: 8}, off: IX(0), len: nl, cap: nl}
}

func (in *Interp) bufIntrinsic(name string, args []Value) (Value, bool) {
	nilErr := (*IfaceV)(nil)
	switch name {
	case "bytes.NewBuffer":
		s := args[0].(*SliceV)
		return &PtrV{cell: &Cell{&BufObj{s: s}}}, true
	case "(*bytes.Buffer).Write":
		b, s := in.bufOf(args[0]), args[1].(*SliceV)
		in.bufAppend(b, s.obj.node, s.off, s.len)
		return TupleV{s.len, nilErr}, true
	case "(*bytes.Buffer).WriteString":
		b, s := in.bufOf(args[0]), args[1].(*StrV)
		in.bufAppend(b, s.node, s.off, s.len)
		return TupleV{s.len, nilErr}, true
	case "(*bytes.Buffer).WriteByte":
		b := in.bufOf(args[0])
		in.bufAppend(b, zeroArr(8).Store(IX(0), args[1].(*Term)), IX(0), IX(1))
		return nilErr, true
	case "(*bytes.Buffer).Len":
		b := in.bufOf(args[0])
		return IArith("-", b.s.len, b.rdOff()), true
	case "(*bytes.Buffer).Bytes":
		b := in.bufOf(args[0])
		n := IArith("-", b.s.len, b.rdOff())
		return &SliceV{obj: b.s.obj, off: IArith("+", b.s.off, b.rdOff()), len: n, cap: n}, true
	case "(*bytes.Buffer).String":
		b := in.bufOf(args[0])
		return &StrV{node: b.s.obj.node, off: IArith("+", b.s.off, b.rdOff()), len: IArith("-", b.s.len, b.rdOff())}, true
	case "(*bytes.Buffer).Read":
		b, p := in.bufOf(args[0]), args[1].(*SliceV)
		avail := IArith("-", b.s.len, b.rdOff())
		if in.branch(ICmp("<=", avail, IntC(0))) {
			if in.branch(Eq(p.len, IntC(0))) {
				return TupleV{IX(0), nilErr}, true
			}
			return TupleV{IX(0), in.load(&PtrV{cell: in.stdGlobal("io", "EOF")})}, true
		}
		n := Ite(ICmp("<", avail, p.len), avail, p.len)
		p.obj.node = p.obj.node.Copy(p.off, b.s.obj.node, IArith("+", b.s.off, b.rdOff()), n)
		b.rd = IArith("+", b.rdOff(), n)
		return TupleV{n, nilErr}, true
	case "(*bytes.Buffer).ReadFrom":
		b, r := in.bufOf(args[0]), args[1].(*IfaceV)
		total := IX(0)
		for it := 0; ; it++ {
			if it > in.loopBound {
				in.end("unwind", "bytes.Buffer.ReadFrom does not terminate within the loop bound")
			}
			win := &SliceV{obj: &ArrObj{node: zeroArr(8), ew: 8}, off: IX(0), len: IX(512), cap: IX(512)}
			res := in.invoke(r, "Read", win).(TupleV)
			m := res[0].(*Term)
			if !in.guard(And(ICmp("<=", IntC(0), m), ICmp("<=", m, IntC(512)))) {
				in.goPanic("bytes.Buffer.ReadFrom: reader returned invalid count")
			}
			in.bufAppend(b, win.obj.node, IX(0), m)
			total = IArith("+", total, m)
			e, _ := res[1].(*IfaceV)
			if e != nil {
				eof := in.load(&PtrV{cell: in.stdGlobal("io", "EOF")}).(*IfaceV)
				if in.valEq(e, eof).IsTrue() {
					return TupleV{in.int64Of(total), nilErr}, true
				}
				return TupleV{in.int64Of(total), e}, true
			}
		}
	}
	return nil, false
}

// int64Of converts an Int term to the 64-bit vector used for Go int64.
func (in *Interp) int64Of(t *Term) *Term { return Int2BV(t, 64) }

// stdGlobal returns the cell of a standard-library package-level variable.
func (in *Interp) stdGlobal(pkg, name string) *Cell {
	p := in.prog.ImportedPackage(pkg)
	if p == nil {
		in.unsupported("package %s not loaded", pkg)
	}
	g, ok := p.Members[name].(*ssa.Global)
	if !ok {
		in.unsupported("no global %s.%s", pkg, name)
	}
	return in.global(g)
}

func (in *Interp) floatBinop(op token.Token, x, y *Term, t types.Type) Value {
	in.unsupported("float arithmetic %s", op)
	return nil
}
func (in *Interp) floatConvert(t *Term, from, to types.Type) Value {
	in.unsupported("float conversion %s -> %s", from, to)
	return nil
}

// runeToString: string(r). Exact UTF-8 for scalar values given concretely; ASCII for symbolic.
func (in *Interp) runeToString(r *Term) Value {
	if r.IsConst() {
		return litStr(string(rune(r.Int())))
	}
	if !in.branch(And(ICmp("<=", IntC(0), r), ICmp("<", r, IntC(128)))) {
		in.unsupported("string(rune) of symbolic non-ASCII value")
	}
	return &StrV{node: zeroArr(8).Store(IX(0), Int2BV(r, 8)), off: IX(0), len: IX(1)}
}
func (in *Interp) stringToRunes(s *StrV) Value {
	in.unsupported("[]rune(string)")
	return nil
}
func (in *Interp) runesToString(s *SliceV) Value {
	in.unsupported("string([]rune)")
	return nil
}
