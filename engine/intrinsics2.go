package main

import (
	"go/token"
	"go/types"

	"golang.org/x/tools/go/ssa"
)

// stdIntrinsic2 holds the models added for value codecs, strings, crypto.
func (in *Interp) stdIntrinsic2(fn *ssa.Function, name string, args []Value) (Value, bool) {
	return nil, false
}

func (in *Interp) floatBinop(op token.Token, x, y *Term, t types.Type) Value {
	in.unsupported("float arithmetic %s", op)
	return nil
}
func (in *Interp) floatConvert(t *Term, from, to types.Type) Value {
	in.unsupported("float conversion %s -> %s", from, to)
	return nil
}

// runeToString: string(r). Exact UTF-8 for scalar values given concretely; ASCII for symbolic.
func (in *Interp) runeToString(r *Term) Value {
	if r.IsConst() {
		return litStr(string(rune(r.Int())))
	}
	if !in.branch(And(ICmp("<=", IntC(0), r), ICmp("<", r, IntC(128)))) {
		in.unsupported("string(rune) of symbolic non-ASCII value")
	}
	return &StrV{node: zeroArr(8).Store(IX(0), Int2BV(r, 8)), off: IX(0), len: IX(1)}
}
func (in *Interp) stringToRunes(s *StrV) Value {
	in.unsupported("[]rune(string)")
	return nil
}
func (in *Interp) runesToString(s *SliceV) Value {
	in.unsupported("string([]rune)")
	return nil
}
