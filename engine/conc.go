package main

import (
	"fmt"
	"go/types"

	"golang.org/x/tools/go/ssa"
)

// Simulated goroutines. Each runs on its own host goroutine used as a
// coroutine: exactly one is running at any time, hand-off happens at blocking
// and (in concurrent mode) at visible operations.
type G struct {
	id        int
	resume    chan struct{}
	done      chan struct{}
	started   bool
	finished  bool
	killed    bool
	blockedOn func() bool
	what      string
}

func (in *Interp) startMain() {
	g := &G{id: 0, resume: make(chan struct{}, 1), done: make(chan struct{}), started: true}
	in.gs = []*G{g}
	in.cur = g
}

func (in *Interp) spawn(fv *FuncV, args []Value) {
	g := &G{id: len(in.gs), resume: make(chan struct{}, 1), done: make(chan struct{})}
	in.gs = append(in.gs, g)
	in.res.Bounds["goroutines"] = maxInt(in.res.Bounds["goroutines"], len(in.gs))
	go func() {
		<-g.resume
		defer close(g.done)
		var pe *pathEnd
		var crash interface{}
		killed := false
		func() {
			defer func() {
				if r := recover(); r != nil {
					switch x := r.(type) {
					case killSignal:
						killed = true
					case pathEnd:
						pe = &x
					default:
						crash = r
					}
				}
			}()
			if g.killed {
				panic(killSignal{})
			}
			g.started = true
			depth := in.callDepth
			in.callDepth = 0
			in.callFunc(fv, args)
			in.callDepth = depth
		}()
		g.finished = true
		if killed {
			return
		}
		if crash != nil {
			in.pendingEnd = &pathEnd{"crash", fmt.Sprint(crash)}
			in.wake(in.gs[0])
			return
		}
		if pe != nil {
			in.pendingEnd = pe
			in.wake(in.gs[0])
			return
		}
		next := in.pickNext(g, false)
		if next == nil {
			in.pendingEnd = &pathEnd{"deadlock", "all goroutines blocked: " + in.blockedSummary()}
			next = in.gs[0]
		}
		in.cur = next
		in.wake(next)
	}()
}

func (in *Interp) wake(g *G) { g.resume <- struct{}{} }

func (in *Interp) blockedSummary() string {
	s := ""
	for _, g := range in.gs {
		if !g.finished && g.blockedOn != nil {
			s += fmt.Sprintf("[g%d: %s] ", g.id, g.what)
		}
	}
	return s
}

func (g *G) enabled() bool {
	if g.finished {
		return false
	}
	return g.blockedOn == nil || g.blockedOn()
}

// pickNext selects the goroutine to run after g blocks or finishes.
func (in *Interp) pickNext(g *G, includeSelf bool) *G {
	var en []*G
	for _, o := range in.gs {
		if o == g && !includeSelf {
			continue
		}
		if o.enabled() {
			en = append(en, o)
		}
	}
	if len(en) == 0 {
		return nil
	}
	if !in.concurrent || len(en) == 1 {
		return en[0]
	}
	return en[in.chooseN("sched", len(en))]
}

// switchTo hands control to next and parks the current goroutine.
func (in *Interp) switchTo(next *G) {
	g := in.cur
	if next == g {
		return
	}
	in.cur = next
	in.wake(next)
	<-g.resume
	if g.killed {
		panic(killSignal{})
	}
	if in.pendingEnd != nil && g.id == 0 {
		pe := *in.pendingEnd
		in.pendingEnd = nil
		if pe.kind == "crash" {
			panic("engine crash in simulated goroutine: " + pe.msg)
		}
		panic(pe)
	}
	in.cur = g
}

// waitUntil blocks the current goroutine until ready() holds.
func (in *Interp) waitUntil(ready func() bool, what string) {
	for !ready() {
		g := in.cur
		g.blockedOn, g.what = ready, what
		next := in.pickNext(g, false)
		if next == nil {
			in.end("deadlock", "all goroutines blocked: "+in.blockedSummary())
		}
		in.switchTo(next)
		g.blockedOn = nil
	}
}

// visible is called before every visible operation; in concurrent mode the
// scheduler may preempt the current goroutine here.
func (in *Interp) visible(what string) {
	if !in.concurrent || len(in.gs) < 2 {
		return
	}
	g := in.cur
	var others []*G
	for _, o := range in.gs {
		if o != g && o.enabled() {
			others = append(others, o)
		}
	}
	if len(others) == 0 || in.preemptions >= in.preemptMax {
		return
	}
	k := in.chooseN("preempt", len(others)+1)
	if k == 0 {
		return
	}
	in.preemptions++
	in.schedLog = append(in.schedLog, fmt.Sprintf("g%d@%s->g%d", g.id, what, others[k-1].id))
	in.switchTo(others[k-1])
}

// yieldAll lets every other goroutine run until it blocks (sequential policy helper, vfSettle).
func (in *Interp) settle() {
	for rounds := 0; rounds < 1000; rounds++ {
		g := in.cur
		var next *G
		for _, o := range in.gs {
			if o != g && o.enabled() {
				next = o
				break
			}
		}
		if next == nil {
			return
		}
		// park ourselves as runnable; we get control back when next blocks/finishes
		// and we are the lowest enabled goroutine, so run as a low-priority goroutine.
		g.blockedOn = func() bool {
			for _, o := range in.gs {
				if o != g && o.enabled2(g) {
					return false
				}
			}
			return true
		}
		g.what = "settle"
		in.switchTo(next)
		g.blockedOn = nil
	}
	in.unsupported("settle does not converge")
}

// enabled2 is enabled() that does not recurse into the settling goroutine's own condition.
func (o *G) enabled2(settler *G) bool {
	if o == settler || o.finished {
		return false
	}
	return o.blockedOn == nil || o.blockedOn()
}

func (in *Interp) killAll() {
	for _, g := range in.gs {
		if g.id == 0 || g.finished {
			continue
		}
		g.killed = true
		in.wake(g)
		<-g.done
	}
	in.gs = nil
}

func maxInt(a, b int) int {
	if a > b {
		return a
	}
	return b
}

// ---- locks ----
type mutexState struct {
	locked bool
}
type rwState struct {
	writer        bool
	readers       int
	writerWaiting int
}

func (in *Interp) mutexOf(p Value) *mutexState {
	c := p.(*PtrV).cell
	if c == nil {
		in.goPanic("nil mutex")
	}
	s, ok := in.side[c].(*mutexState)
	if !ok {
		s = &mutexState{}
		in.side[c] = s
	}
	return s
}
func (in *Interp) rwOf(p Value) *rwState {
	c := p.(*PtrV).cell
	if c == nil {
		in.goPanic("nil rwmutex")
	}
	s, ok := in.side[c].(*rwState)
	if !ok {
		s = &rwState{}
		in.side[c] = s
	}
	return s
}

func (in *Interp) syncIntrinsic(name string, args []Value) (Value, bool) {
	switch name {
	case "(*sync.Mutex).Lock":
		in.visible(name)
		m := in.mutexOf(args[0])
		in.waitUntil(func() bool { return !m.locked }, "Mutex.Lock")
		m.locked = true
		return nil, true
	case "(*sync.Mutex).Unlock":
		m := in.mutexOf(args[0])
		if !m.locked {
			in.goPanic("sync: unlock of unlocked mutex")
		}
		m.locked = false
		return nil, true
	case "(*sync.RWMutex).Lock":
		in.visible(name)
		m := in.rwOf(args[0])
		m.writerWaiting++
		in.waitUntil(func() bool { return !m.writer && m.readers == 0 }, "RWMutex.Lock")
		m.writerWaiting--
		m.writer = true
		return nil, true
	case "(*sync.RWMutex).Unlock":
		m := in.rwOf(args[0])
		if !m.writer {
			in.goPanic("sync: Unlock of unlocked RWMutex")
		}
		m.writer = false
		return nil, true
	case "(*sync.RWMutex).RLock":
		in.visible(name)
		m := in.rwOf(args[0])
		in.waitUntil(func() bool { return !m.writer && m.writerWaiting == 0 }, "RWMutex.RLock")
		m.readers++
		return nil, true
	case "(*sync.RWMutex).RUnlock":
		m := in.rwOf(args[0])
		if m.readers <= 0 {
			in.goPanic("sync: RUnlock of unlocked RWMutex")
		}
		m.readers--
		return nil, true
	case "(*sync.Pool).Get":
		in.visible(name)
		p := args[0].(*PtrV)
		st := in.poolOf(p)
		// any stored item may be returned; items may have been dropped (GC); otherwise New
		k := in.chooseN("pool-get", len(st.items)+1)
		if k < len(st.items) {
			// alternatives are ordered most-recently-stored first (what the real
			// per-P cache usually does, so the first counterexample found replays natively)
			k = len(st.items) - 1 - k
			it := st.items[k]
			st.items = append(append([]Value{}, st.items[:k]...), st.items[k+1:]...)
			return it, true
		}
		if len(st.items) > 0 && in.chooseN("pool-gc", 2) == 1 {
			st.items = nil // a garbage collection emptied the pool
		}
		so := p.cell.v.(*StructObj)
		newFn, _ := so.f[in.fieldIndex(p, "New")].v.(*FuncV)
		if newFn == nil {
			return (*IfaceV)(nil), true
		}
		return in.callFunc(newFn, nil), true
	case "(*sync.Pool).Put":
		in.visible(name)
		st := in.poolOf(args[0].(*PtrV))
		if iv, _ := args[1].(*IfaceV); iv != nil {
			st.items = append(st.items, iv)
		}
		return nil, true
	case "sync/atomic.AddUint32", "sync/atomic.AddUint64", "sync/atomic.AddInt32", "sync/atomic.AddInt64":
		in.visible(name)
		p := args[0].(*PtrV)
		v := Bin("bvadd", in.load(p).(*Term), args[1].(*Term))
		in.store(p, v)
		return v, true
	case "sync/atomic.StoreUint32", "sync/atomic.StoreUint64", "sync/atomic.StoreInt32", "sync/atomic.StoreInt64":
		in.visible(name)
		in.store(args[0].(*PtrV), args[1])
		return nil, true
	case "sync/atomic.CompareAndSwapUint32", "sync/atomic.CompareAndSwapUint64", "sync/atomic.CompareAndSwapInt32", "sync/atomic.CompareAndSwapInt64":
		in.visible(name)
		p := args[0].(*PtrV)
		if in.branch(Eq(in.load(p).(*Term), args[1].(*Term))) {
			in.store(p, args[2])
			return Bool(true), true
		}
		return Bool(false), true
	case "sync/atomic.LoadUint32", "sync/atomic.LoadUint64", "sync/atomic.LoadInt32", "sync/atomic.LoadInt64":
		in.visible(name)
		return in.load(args[0].(*PtrV)), true
	}
	return nil, false
}

// ---- channels ----
func (in *Interp) chanSend(ch *ChanV, v Value, where string) {
	in.visible("send")
	if ch == nil {
		in.waitUntil(func() bool { return false }, "send on nil channel in "+where)
	}
	if ch.cap == 0 {
		in.unsupported("send on unbuffered channel in %s", where)
	}
	in.waitUntil(func() bool { return ch.closed || len(ch.q) < ch.cap }, "chan send in "+where)
	if ch.closed {
		in.goPanic("send on closed channel in " + where)
	}
	ch.q = append(ch.q, v)
}

func (in *Interp) chanRecv(ch *ChanV, et types.Type, where string) (Value, bool) {
	in.visible("recv")
	if ch == nil {
		in.waitUntil(func() bool { return false }, "receive from nil channel in "+where)
	}
	in.waitUntil(func() bool { return ch.closed || len(ch.q) > 0 }, "chan receive in "+where)
	if len(ch.q) > 0 {
		r := ch.q[0]
		ch.q = ch.q[1:]
		return r, true
	}
	return in.zero(et), false
}

func (in *Interp) sel(fr *frame, x *ssa.Select) Value {
	in.visible("select")
	chans := make([]*ChanV, len(x.States))
	for i, st := range x.States {
		ch, _ := in.get(fr, st.Chan).(*ChanV)
		chans[i] = ch
	}
	readySet := func() []int {
		var ready []int
		for i, st := range x.States {
			ch := chans[i]
			if ch == nil {
				continue
			}
			if st.Dir == types.RecvOnly && (len(ch.q) > 0 || ch.closed) {
				ready = append(ready, i)
			}
			if st.Dir == types.SendOnly && (ch.closed || len(ch.q) < ch.cap) {
				ready = append(ready, i)
			}
		}
		return ready
	}
	ready := readySet()
	if len(ready) == 0 && x.Blocking {
		in.waitUntil(func() bool { return len(readySet()) > 0 }, "select in "+fr.fn.String())
		ready = readySet()
	}
	idx := -1
	switch {
	case len(ready) == 1:
		idx = ready[0]
	case len(ready) > 1:
		// Go chooses uniformly at random among ready cases
		idx = ready[in.chooseN("select", len(ready))]
	}
	res := TupleV{IX(int64(idx)), Bool(false)}
	for i, st := range x.States {
		if st.Dir != types.RecvOnly {
			if i == idx {
				if chans[i].closed {
					in.goPanic("send on closed channel (select)")
				}
				chans[i].q = append(chans[i].q, in.get(fr, st.Send))
			}
			continue
		}
		et := st.Chan.Type().Underlying().(*types.Chan).Elem()
		var r Value = in.zero(et)
		if i == idx {
			ch := chans[i]
			if len(ch.q) > 0 {
				r, ch.q = ch.q[0], ch.q[1:]
				res[1] = Bool(true)
			}
		}
		res = append(res, r)
	}
	return res
}

type poolState struct{ items []Value }

func (in *Interp) poolOf(p *PtrV) *poolState {
	if p.cell == nil {
		in.goPanic("nil *sync.Pool")
	}
	s, ok := in.side[p.cell].(*poolState)
	if !ok {
		s = &poolState{}
		in.side[p.cell] = s
	}
	return s
}

// fieldIndex finds a field of sync.Pool by name.
func (in *Interp) fieldIndex(p *PtrV, name string) int {
	pkg := in.prog.ImportedPackage("sync")
	st := pkg.Pkg.Scope().Lookup("Pool").Type().Underlying().(*types.Struct)
	for i := 0; i < st.NumFields(); i++ {
		if st.Field(i).Name() == name {
			return i
		}
	}
	in.unsupported("sync.Pool has no field %s", name)
	return -1
}
