package main

import (
	"fmt"
	"go/token"
	"go/types"
	"math/big"

	"golang.org/x/tools/go/ssa"
)

type bigInt = big.Int

func (in *Interp) boundsCheck(i, n *Term, what string) {
	ok := And(Cmp("bvsle", IX(0), i), Cmp("bvslt", i, n))
	if !in.guard(ok) {
		in.goPanic("index out of range: " + what)
	}
}
// toInt64 converts an integer term of any Go integer type to the Int sort used for Go int.
func toInt64(t *Term, signed bool) *Term {
	return BV2Int(t, signed)
}

func (in *Interp) load(p *PtrV) Value {
	if p.cell != nil {
		return copyVal(p.cell.v)
	}
	if p.arr != nil {
		return p.arr.node.Read(p.idx)
	}
	in.goPanic("nil pointer dereference (load)")
	return nil
}
func (in *Interp) store(p *PtrV, v Value) {
	if g := in.mergeGuard; g != nil {
		// conditional store inside a merged diamond
		nv, ok := v.(*Term)
		if !ok {
			in.unsupported("merge: non-scalar store")
		}
		if p.cell != nil {
			old, ok := p.cell.v.(*Term)
			if !ok || old.w != nv.w {
				in.unsupported("merge: store over non-scalar")
			}
			p.cell.v = Ite(g, nv, old)
			return
		}
		if p.arr != nil {
			p.arr.node = p.arr.node.Store(p.idx, Ite(g, nv, p.arr.node.Read(p.idx)))
			return
		}
	}
	if p.cell != nil {
		p.cell.v = copyVal(v)
		return
	}
	if p.arr != nil {
		p.arr.node = p.arr.node.Store(p.idx, v.(*Term))
		return
	}
	in.goPanic("nil pointer dereference (store)")
}

func (in *Interp) exec(fr *frame, ins ssa.Instruction) {
	switch x := ins.(type) {
	case *ssa.Alloc:
		fr.loc[x] = &PtrV{cell: &Cell{in.zero(x.Type().(*types.Pointer).Elem())}}
	case *ssa.Store:
		in.store(in.get(fr, x.Addr).(*PtrV), in.get(fr, x.Val))
	case *ssa.UnOp:
		fr.loc[x] = in.unop(fr, x)
	case *ssa.BinOp:
		fr.loc[x] = in.binop(x.Op, in.get(fr, x.X), in.get(fr, x.Y), x.X.Type())
	case *ssa.FieldAddr:
		p := in.get(fr, x.X).(*PtrV)
		if p.cell == nil {
			in.goPanic(fmt.Sprintf("nil pointer dereference (field %d) in %s", x.Field, fr.fn))
		}
		fr.loc[x] = &PtrV{cell: p.cell.v.(*StructObj).f[x.Field]}
	case *ssa.Field:
		fr.loc[x] = copyVal(in.get(fr, x.X).(*StructObj).f[x.Field].v)
	case *ssa.IndexAddr:
		fr.loc[x] = in.indexAddr(fr, x)
	case *ssa.Index:
		idx := toInt64(in.get(fr, x.Index).(*Term), isSigned(x.Index.Type()))
		switch a := in.get(fr, x.X).(type) {
		case *ArrObj:
			n := x.X.Type().Underlying().(*types.Array).Len()
			in.boundsCheck(idx, IX(n), "array index")
			fr.loc[x] = a.node.Read(idx)
		case *StructObj:
			k, ok := constInt(idx)
			if !ok {
				in.unsupported("symbolic index into array of non-scalars")
			}
			fr.loc[x] = copyVal(a.f[k].v)
		case *StrV:
			in.boundsCheck(idx, a.len, "string index in "+fr.fn.String())
			fr.loc[x] = a.node.Read(Bin("bvadd", a.off, idx))
		default:
			in.unsupported("index on %T", a)
		}
	case *ssa.Slice:
		fr.loc[x] = in.slice(fr, x)
	case *ssa.MakeSlice:
		n := toInt64(in.get(fr, x.Len).(*Term), isSigned(x.Len.Type()))
		c := toInt64(in.get(fr, x.Cap).(*Term), isSigned(x.Cap.Type()))
		et := x.Type().Underlying().(*types.Slice).Elem()
		if !in.guard(And(Cmp("bvsle", IX(0), n), Cmp("bvsle", n, IX(1<<40)))) {
			in.goPanic("makeslice: len out of range in " + fr.fn.String())
		}
		if !in.guard(Cmp("bvsle", n, c)) {
			in.goPanic("makeslice: cap out of range in " + fr.fn.String())
		}
		in.allocs = append(in.allocs, allocRec{IArith("*", n, IntC(elemBytes(et))), fr.fn.String()})
		if isScalar(et) {
			fr.loc[x] = &SliceV{obj: &ArrObj{node: zeroArr(width(et)), ew: width(et)}, off: IX(0), len: n, cap: c}
		} else {
			k, ok := constInt(n)
			if !ok {
				// case split on small lengths
				K := in.smallLen
				conds := make([]*Term, K+2)
				for i := 0; i <= K; i++ {
					conds[i] = Eq(n, IX(int64(i)))
				}
				conds[K+1] = ICmp("<", IX(int64(K)), n)
				k = in.choose(conds)
				if k == K+1 {
					in.end("bound", fmt.Sprintf("slice of %s with more than %d elements in %s (outside the harness bound)", et, K, fr.fn))
				}
			}
			cells := make([]*Cell, k)
			for i := range cells {
				cells[i] = &Cell{in.zero(et)}
			}
			fr.loc[x] = &SliceG{cells: &cells, len: k, cap: k}
		}
	case *ssa.MakeInterface:
		fr.loc[x] = &IfaceV{typ: x.X.Type(), val: in.get(fr, x.X)}
	case *ssa.ChangeInterface:
		fr.loc[x] = in.get(fr, x.X)
	case *ssa.ChangeType:
		fr.loc[x] = in.get(fr, x.X)
	case *ssa.Convert:
		fr.loc[x] = in.convert(in.get(fr, x.X), x.X.Type(), x.Type())
	case *ssa.TypeAssert:
		fr.loc[x] = in.typeAssert(fr, x)
	case *ssa.Extract:
		fr.loc[x] = in.get(fr, x.Tuple).(TupleV)[x.Index]
	case *ssa.MakeClosure:
		fv := &FuncV{fn: x.Fn.(*ssa.Function)}
		for _, b := range x.Bindings {
			fv.bind = append(fv.bind, in.get(fr, b))
		}
		fr.loc[x] = fv
	case *ssa.MakeMap:
		fr.loc[x] = &MapV{}
	case *ssa.MapUpdate:
		in.mapUpdate(in.get(fr, x.Map).(*MapV), in.get(fr, x.Key), in.get(fr, x.Value))
	case *ssa.Lookup:
		fr.loc[x] = in.lookup(fr, x)
	case *ssa.Range:
		if sv, isStr := in.get(fr, x.X).(*StrV); isStr {
			fr.loc[x] = &RangeIter{str: sv}
			break
		}
		m, ok := in.get(fr, x.X).(*MapV)
		if !ok {
			in.unsupported("range over non-map")
		}
		it := &RangeIter{m: m}
		if m != nil {
			it.left = append(it.left, m.e...)
			scalar := true
			for _, e := range m.e {
				_, k := e.k.(*Term)
				_, v := e.v.(*Term)
				scalar = scalar && k && v
			}
			if scalar && len(m.e) > 1 {
				n := len(m.e)
				for range m.e {
					p := in.freshVar("mappos", 8)
					in.assume(Cmp("bvult", p, BV(8, int64(n))))
					for _, q := range it.pos {
						in.assume(Not(Eq(p, q)))
					}
					it.pos = append(it.pos, p)
				}
			}
		}
		fr.loc[x] = it
	case *ssa.Next:
		it := in.get(fr, x.Iter).(*RangeIter)
		kt := x.Type().(*types.Tuple)
		if it.str != nil {
			// range over a string: UTF-8 decoding with the executor branching on the
			// byte classes (strs.go decodeRune)
			n := in.strLenConst(it.str, "range over string")
			if it.j >= n {
				fr.loc[x] = TupleV{Bool(false), IntC(0), BV(32, 0)}
				break
			}
			r, w := in.decodeRune(it.str, it.j, n)
			fr.loc[x] = TupleV{Bool(true), IntC(int64(it.j)), r}
			it.j += w - 1
			it.j++
			break
		}
		if it.pos != nil {
			if it.j >= len(it.left) {
				fr.loc[x] = TupleV{Bool(false), in.zero(kt.At(1).Type()), in.zero(kt.At(2).Type())}
				break
			}
			k, v := it.left[0].k.(*Term), it.left[0].v.(*Term)
			for i := 1; i < len(it.left); i++ {
				c := Eq(it.pos[i], BV(8, int64(it.j)))
				k = Ite(c, it.left[i].k.(*Term), k)
				v = Ite(c, it.left[i].v.(*Term), v)
			}
			it.j++
			fr.loc[x] = TupleV{Bool(true), k, v}
			break
		}
		if len(it.left) == 0 {
			fr.loc[x] = TupleV{Bool(false), in.zero(kt.At(1).Type()), in.zero(kt.At(2).Type())}
			break
		}
		conds := make([]*Term, len(it.left))
		pick := in.freshVar("maporder", 8)
		for i := range conds {
			conds[i] = Eq(pick, BV(8, int64(i)))
		}
		k := 0
		if len(it.left) > 1 && !in.fixedMapOrder {
			k = in.choose(conds)
		}
		e := it.left[k]
		it.left = append(append([]*mapEntry{}, it.left[:k]...), it.left[k+1:]...)
		fr.loc[x] = TupleV{Bool(true), e.k, e.v}
	case *ssa.Call:
		fr.loc[x] = in.doCall(fr, x.Common())
	case *ssa.Defer:
		c := x.Common()
		fv, args := in.resolve(fr, c)
		fr.defers = append(fr.defers, func() { in.callFunc(fv, args) })
	case *ssa.MakeChan:
		n, ok := constInt(toInt64(in.get(fr, x.Size).(*Term), true))
		if !ok {
			in.unsupported("symbolic channel size")
		}
		in.fresh++
		fr.loc[x] = &ChanV{cap: n, id: in.fresh}
	case *ssa.Send:
		ch, _ := in.get(fr, x.Chan).(*ChanV)
		in.chanSend(ch, in.get(fr, x.X), fr.fn.String())
	case *ssa.Go:
		fv, args := in.resolve(fr, x.Common())
		if fv != nil && fv.bi != "" {
			in.unsupported("go builtin")
		}
		in.spawn(fv, args)
	case *ssa.Select:
		fr.loc[x] = in.sel(fr, x)
	case *ssa.DebugRef:
	default:
		in.unsupported("instruction %T in %s", ins, fr.fn)
	}
}

func (in *Interp) resolve(fr *frame, c *ssa.CallCommon) (*FuncV, []Value) {
	var args []Value
	var fv *FuncV
	if c.IsInvoke() {
		iv, _ := in.get(fr, c.Value).(*IfaceV)
		if iv == nil {
			in.goPanic("invoke on nil interface " + c.Method.Name())
		}
		ms := in.prog.MethodSets.MethodSet(iv.typ)
		sel := ms.Lookup(c.Method.Pkg(), c.Method.Name())
		if sel == nil {
			in.unsupported("method %s not found on %s", c.Method.Name(), iv.typ)
		}
		fv = &FuncV{fn: in.prog.MethodValue(sel)}
		args = append(args, iv.val)
	} else {
		fv, _ = in.get(fr, c.Value).(*FuncV)
	}
	for _, a := range c.Args {
		args = append(args, in.get(fr, a))
	}
	return fv, args
}
func (in *Interp) doCall(fr *frame, c *ssa.CallCommon) Value {
	fv, args := in.resolve(fr, c)
	if fv != nil && fv.bi != "" {
		return in.builtin(fv.bi, args, c)
	}
	return in.callFunc(fv, args)
}

func (in *Interp) unop(fr *frame, x *ssa.UnOp) Value {
	v := in.get(fr, x.X)
	switch x.Op {
	case token.ARROW:
		ch, _ := v.(*ChanV)
		et := x.X.Type().Underlying().(*types.Chan).Elem()
		r, ok := in.chanRecv(ch, et, fr.fn.String())
		if x.CommaOk {
			return TupleV{r, Bool(ok)}
		}
		return r
	case token.MUL:
		return in.load(v.(*PtrV))
	case token.NOT:
		return Not(v.(*Term))
	case token.SUB:
		t := v.(*Term)
		if t.w == SortInt {
			return in.intResult(IArith("-", IntC(0), t))
		}
		return Bin("bvsub", BV(t.w, 0), t)
	case token.XOR:
		t := v.(*Term)
		if t.w == SortInt {
			return IArith("-", IArith("-", IntC(0), t), IntC(1))
		}
		return Bin("bvxor", t, BVbig(t.w, mask(t.w)))
	}
	in.unsupported("unop %s", x.Op)
	return nil
}

func (in *Interp) valEq(a, b Value) *Term {
	switch x := a.(type) {
	case *Term:
		return Eq(x, b.(*Term))
	case *PtrV:
		y := b.(*PtrV)
		return Bool(x.cell == y.cell && x.arr == y.arr && x.idx == y.idx)
	case *IfaceV:
		y, _ := b.(*IfaceV)
		if x == nil || y == nil {
			return Bool(x == nil && y == nil)
		}
		if !types.Identical(x.typ, y.typ) {
			return Bool(false)
		}
		return in.valEq(x.val, y.val)
	case *StrV:
		y := b.(*StrV)
		le := Eq(x.len, y.len)
		if le.IsFalse() {
			return le
		}
		n, ok := constInt(x.len)
		if !ok {
			n, ok = constInt(y.len)
		}
		if !ok {
			in.unsupported("string equality with two symbolic lengths")
		}
		r := le
		for i := 0; i < n; i++ {
			k := IX(int64(i))
			r = And(r, Eq(x.node.Read(Bin("bvadd", x.off, k)), y.node.Read(Bin("bvadd", y.off, k))))
		}
		return r
	case *StructObj:
		y := b.(*StructObj)
		r := Bool(true)
		for i := range x.f {
			r = And(r, in.valEq(x.f[i].v, y.f[i].v))
		}
		return r
	case *FuncV:
		y, _ := b.(*FuncV)
		return Bool(x == nil && y == nil)
	case *MapV:
		y, _ := b.(*MapV)
		return Bool(x == y)
	case *SliceV:
		return Bool(x.isNil) // only comparison with nil is legal
	case *SliceG:
		return Bool(x.isNil)
	case *ChanV:
		y, _ := b.(*ChanV)
		return Bool(x == y)
	case *OpaqueV:
		y, _ := b.(*OpaqueV)
		return Bool(x == y || (x != nil && y != nil && x.tag == y.tag))
	case nil:
		return Bool(b == nil)
	}
	in.unsupported("equality on %T", a)
	return nil
}

func (in *Interp) binop(op token.Token, a, b Value, xt types.Type) Value {
	if op == token.EQL {
		if s, ok := b.(*SliceV); ok && !isNilish(a) {
			_ = s
		}
		if isNilSliceCmp(a, b) {
			return in.valEq(pickNonNil(a, b), nil)
		}
		return in.valEq(a, b)
	}
	if op == token.NEQ {
		return Not(in.binop(token.EQL, a, b, xt).(*Term))
	}
	if sa, ok := a.(*StrV); ok {
		sb := b.(*StrV)
		if op == token.ADD {
			n := zeroArr(8).Copy(IX(0), sa.node, sa.off, sa.len).Copy(sa.len, sb.node, sb.off, sb.len)
			return &StrV{node: n, off: IX(0), len: Bin("bvadd", sa.len, sb.len)}
		}
		switch op {
		case token.GTR:
			return in.binop(token.LSS, b, a, xt)
		case token.GEQ:
			return in.binop(token.LEQ, b, a, xt)
		case token.LSS, token.LEQ:
			la, lb := in.strLenConst(sa, "string comparison"), in.strLenConst(sb, "string comparison")
			res := Bool(la < lb || (op == token.LEQ && la == lb))
			for i := min(la, lb) - 1; i >= 0; i-- {
				x, y := sa.at(i), sb.at(i)
				res = Or(Cmp("bvult", x, y), And(Eq(x, y), res))
			}
			return res
		}
		in.unsupported("string op %s", op)
	}
	x, y := a.(*Term), b.(*Term)
	sg := isSigned(xt)
	if x.w == SortInt {
		return in.intBinop(op, x, y)
	}
	if isFloat(xt) {
		return in.floatBinop(op, x, y, xt)
	}
	switch op {
	case token.ADD:
		return Bin("bvadd", x, y)
	case token.SUB:
		return Bin("bvsub", x, y)
	case token.MUL:
		return Bin("bvmul", x, y)
	case token.QUO, token.REM:
		if !in.guard(Not(Eq(y, BV(y.w, 0)))) {
			in.goPanic("integer divide by zero")
		}
		n := map[bool]map[token.Token]string{true: {token.QUO: "bvsdiv", token.REM: "bvsrem"}, false: {token.QUO: "bvudiv", token.REM: "bvurem"}}[sg][op]
		return Bin(n, x, y)
	case token.AND:
		if x.w == 0 {
			return And(x, y)
		}
		return Bin("bvand", x, y)
	case token.OR:
		if x.w == 0 {
			return Or(x, y)
		}
		return Bin("bvor", x, y)
	case token.XOR:
		return Bin("bvxor", x, y)
	case token.AND_NOT:
		return Bin("bvand", x, Bin("bvxor", y, BVbig(y.w, mask(y.w))))
	case token.SHL, token.SHR:
		// shift count: unsigned of any width; Go: count >= width gives 0 / sign
		var cnt *Term
		if y.w == SortInt {
			if !in.guard(ICmp("<=", IntC(0), y)) {
				in.goPanic("negative shift amount")
			}
			cnt = Ite(ICmp("<", y, IntC(int64(x.w))), Int2BV(y, x.w), BV(x.w, int64(x.w)))
		} else if y.w > x.w {
			big := Cmp("bvule", BV(y.w, int64(x.w)), y)
			cnt = Ite(big, BV(x.w, int64(x.w)), Extract(y, x.w-1, 0))
		} else {
			cnt = ZExt(y, x.w)
		}
		if op == token.SHL {
			return Bin("bvshl", x, cnt)
		}
		if sg {
			return Bin("bvashr", x, cnt)
		}
		return Bin("bvlshr", x, cnt)
	case token.LSS, token.LEQ, token.GTR, token.GEQ:
		lt, le := "bvult", "bvule"
		if sg {
			lt, le = "bvslt", "bvsle"
		}
		switch op {
		case token.LSS:
			return Cmp(lt, x, y)
		case token.LEQ:
			return Cmp(le, x, y)
		case token.GTR:
			return Cmp(lt, y, x)
		default:
			return Cmp(le, y, x)
		}
	}
	in.unsupported("binop %s", op)
	return nil
}
func isNilish(v Value) bool { return v == nil }
func isNilSliceCmp(a, b Value) bool {
	_, sa := a.(*SliceV)
	_, sb := b.(*SliceV)
	_, ga := a.(*SliceG)
	_, gb := b.(*SliceG)
	return sa || sb || ga || gb
}
func pickNonNil(a, b Value) Value {
	switch x := a.(type) {
	case *SliceV:
		if !x.isNil {
			return x
		}
	case *SliceG:
		if !x.isNil {
			return x
		}
	}
	return b
}

func (in *Interp) convert(v Value, from, to types.Type) Value {
	fu, tu := from.Underlying(), to.Underlying()
	if t, ok := v.(*Term); ok {
		tb, ok2 := tu.(*types.Basic)
		if ok2 && tb.Info()&types.IsString != 0 {
			// string(rune/byte)
			return in.runeToString(BV2Int(t, isSigned(from)))
		}
		if isFloat(to) || isFloat(from) {
			return in.floatConvert(t, from, to)
		}
		w := width(to)
		if w == SortInt {
			// to int/int64: narrower sources extend by their own signedness; a 64-bit
			// source is reinterpreted as two's complement
			if t.w == 64 {
				return BV2Int(t, true)
			}
			return BV2Int(t, isSigned(from))
		}
		if t.w == SortInt {
			return Int2BV(t, w)
		}
		if w < t.w {
			return Extract(t, w-1, 0)
		}
		if isSigned(from) {
			return SExt(t, w)
		}
		return ZExt(t, w)
	}
	_ = fu
	switch x := v.(type) {
	case *StrV:
		if sl, ok := tu.(*types.Slice); ok {
			if width(sl.Elem()) == 8 { // string -> []byte
				return &SliceV{obj: &ArrObj{node: x.node, ew: 8}, off: x.off, len: x.len, cap: x.len}
			}
			return in.stringToRunes(x)
		}
		return x
	case *SliceV:
		if _, ok := tu.(*types.Basic); ok {
			if x.obj.ew == 8 { // []byte -> string
				return &StrV{node: x.obj.node, off: x.off, len: x.len}
			}
			return in.runesToString(x)
		}
		return x
	}
	return v
}

// intResult gives an int/int64 arithmetic result its machine meaning: when the
// mathematical result provably fits 64 bits it is the result, otherwise the
// two's complement wrap-around is applied explicitly.
func (in *Interp) intResult(r *Term) *Term {
	two63 := new(big.Int).Lsh(big.NewInt(1), 63)
	two64 := new(big.Int).Lsh(big.NewInt(1), 64)
	wrap := func(x *Term) *Term {
		return IArith("-", IArith("mod", IArith("+", x, IntBig(two63)), IntBig(two64)), IntBig(two63))
	}
	if r.IsConst() {
		if r.c.Cmp(minInt64) < 0 || r.c.Cmp(maxInt64) > 0 {
			return wrap(r)
		}
		return r
	}
	if r.fitsInt64() {
		return r
	}
	ok := And(ICmp("<=", IntBig(minInt64), r), ICmp("<=", r, IntBig(maxInt64)))
	if in.sol.Check(in.pc, Not(ok)) == "unsat" {
		return setBounds(r, minInt64, maxInt64)
	}
	w := wrap(r)
	return setBounds(w, minInt64, maxInt64)
}

func pow2(k int) *Term { return IntBig(new(big.Int).Lsh(big.NewInt(1), uint(k))) }

func exactDivTerm(x, y *Term) (*Term, bool) {
	if y.IsConst() && y.c.Sign() > 0 && y.c.Cmp(big.NewInt(1)) > 0 && !x.IsConst() {
		return exactDiv(x, y.c, 0)
	}
	return nil, false
}

func (in *Interp) intBinop(op token.Token, x, y *Term) Value {
	switch op {
	case token.ADD:
		return in.intResult(IArith("+", x, coerceInt(y)))
	case token.SUB:
		return in.intResult(IArith("-", x, coerceInt(y)))
	case token.MUL:
		return in.intResult(IArith("*", x, coerceInt(y)))
	case token.QUO, token.REM:
		y = coerceInt(y)
		if !in.guard(Not(Eq(y, IntC(0)))) {
			in.goPanic("integer divide by zero")
		}
		var q *Term
		if xq, exact := exactDivTerm(x, y); exact {
			// an exact division has no rounding: truncation and floor coincide
			if op == token.QUO {
				return xq
			}
			return IntC(0)
		}
		if y.IsConst() && y.c.Sign() > 0 && x.nonNeg() {
			q = IArith("div", x, y)
		} else {
			// Go truncates toward zero
			ax := Ite(ICmp("<=", IntC(0), x), x, IArith("-", IntC(0), x))
			ay := Ite(ICmp("<=", IntC(0), y), y, IArith("-", IntC(0), y))
			aq := IArith("div", ax, ay)
			neg := Not(Eq(ICmp("<", x, IntC(0)), ICmp("<", y, IntC(0))))
			q = Ite(neg, IArith("-", IntC(0), aq), aq)
		}
		if op == token.QUO {
			return q
		}
		if y.IsConst() && y.c.Sign() > 0 && x.nonNeg() {
			return IArith("mod", x, y)
		}
		return IArith("-", x, IArith("*", y, q))
	case token.LSS:
		return ICmp("<", x, coerceInt(y))
	case token.LEQ:
		return ICmp("<=", x, coerceInt(y))
	case token.GTR:
		return ICmp("<", coerceInt(y), x)
	case token.GEQ:
		return ICmp("<=", coerceInt(y), x)
	case token.SHL, token.SHR:
		var k int
		ok := false
		if y.IsConst() {
			k, ok = int(y.Int()), true
			if y.w != SortInt {
				k = int(y.Uint())
			}
		}
		if ok && k >= 0 && k < 63 {
			if op == token.SHL {
				return in.intResult(IArith("*", x, pow2(k)))
			}
			return IArith("div", x, pow2(k)) // floor division = arithmetic shift
		}
	case token.AND:
		y = coerceInt(y)
		for _, p := range [][2]*Term{{x, y}, {y, x}} {
			if p[1].IsConst() && p[0].nonNeg() {
				m := new(big.Int).Add(p[1].c, big.NewInt(1))
				if m.Sign() > 0 && new(big.Int).And(m, p[1].c).Sign() == 0 { // mask 2^k-1
					return IArith("mod", p[0], IntBig(m))
				}
			}
		}
	case token.OR:
		// (a * 2^k) | b with 0 <= b < 2^k
		y = coerceInt(y)
		for _, p := range [][2]*Term{{x, y}, {y, x}} {
			if p[0].op == "*" && p[0].args[1].IsConst() && p[0].nonNeg() {
				lo, hi := p[1].bounds()
				if lo != nil && hi != nil && lo.Sign() >= 0 && hi.Cmp(p[0].args[1].c) < 0 {
					c := p[0].args[1].c
					if new(big.Int).And(c, new(big.Int).Sub(c, big.NewInt(1))).Sign() == 0 {
						return in.intResult(IArith("+", p[0], p[1]))
					}
				}
			}
		}
	}
	// general fallback: through 64-bit vectors
	bx, by := Int2BV(x, 64), y
	if by.w == SortInt {
		by = Int2BV(by, 64)
	}
	switch op {
	case token.AND:
		return BV2Int(Bin("bvand", bx, by), true)
	case token.OR:
		return BV2Int(Bin("bvor", bx, by), true)
	case token.XOR:
		return BV2Int(Bin("bvxor", bx, by), true)
	case token.AND_NOT:
		return BV2Int(Bin("bvand", bx, Bin("bvxor", by, BVbig(64, mask(64)))), true)
	case token.SHL, token.SHR:
		var cnt *Term
		if y.w == SortInt {
			if !in.guard(ICmp("<=", IntC(0), y)) {
				in.goPanic("negative shift amount")
			}
			cnt = Ite(ICmp("<", y, IntC(64)), Int2BV(y, 64), BV(64, 64))
		} else if y.w > 64 {
			in.unsupported("shift count width")
		} else {
			cnt = ZExt(y, 64)
		}
		if op == token.SHL {
			return BV2Int(Bin("bvshl", bx, cnt), true)
		}
		return BV2Int(Bin("bvashr", bx, cnt), true)
	}
	in.unsupported("int binop %s", op)
	return nil
}

func (in *Interp) typeAssert(fr *frame, x *ssa.TypeAssert) Value {
	iv, _ := in.get(fr, x.X).(*IfaceV)
	ok := false
	if iv != nil {
		if it, isI := x.AssertedType.Underlying().(*types.Interface); isI {
			ok = types.Implements(iv.typ, it)
		} else {
			ok = types.Identical(iv.typ, x.AssertedType)
		}
	}
	var res Value
	if ok {
		if _, isI := x.AssertedType.Underlying().(*types.Interface); isI {
			res = iv
		} else {
			res = iv.val
		}
	} else {
		res = in.zero(x.AssertedType)
	}
	if x.CommaOk {
		return TupleV{res, Bool(ok)}
	}
	if !ok {
		in.goPanic(fmt.Sprintf("interface conversion to %s failed", x.AssertedType))
	}
	return res
}

func (in *Interp) indexAddr(fr *frame, x *ssa.IndexAddr) Value {
	idx := toInt64(in.get(fr, x.Index).(*Term), isSigned(x.Index.Type()))
	switch a := in.get(fr, x.X).(type) {
	case *SliceV:
		in.boundsCheck(idx, a.len, "slice index in "+fr.fn.String())
		return &PtrV{arr: a.obj, idx: Bin("bvadd", a.off, idx)}
	case *SliceG:
		k, ok := constInt(idx)
		if !ok {
			// case split on the concrete position
			conds := make([]*Term, a.len+1)
			for i := 0; i < a.len; i++ {
				conds[i] = Eq(idx, IX(int64(i)))
			}
			conds[a.len] = Not(And(Cmp("bvsle", IX(0), idx), Cmp("bvslt", idx, IX(int64(a.len)))))
			k = in.choose(conds)
			if k == a.len {
				in.goPanic("index out of range (generic slice) in " + fr.fn.String())
			}
		}
		if k < 0 || k >= a.len {
			in.goPanic("index out of range (generic slice) in " + fr.fn.String())
		}
		return &PtrV{cell: (*a.cells)[a.off+k]}
	case *PtrV: // pointer to array
		if a.cell == nil {
			in.goPanic("nil array pointer")
		}
		switch arr := a.cell.v.(type) {
		case *ArrObj:
			n := x.X.Type().Underlying().(*types.Pointer).Elem().Underlying().(*types.Array).Len()
			in.boundsCheck(idx, IX(n), "array index")
			return &PtrV{arr: arr, idx: idx}
		case *StructObj:
			k, ok := constInt(idx)
			if !ok {
				// case split on the concrete position
				conds := make([]*Term, len(arr.f)+1)
				for i := range arr.f {
					conds[i] = Eq(idx, IX(int64(i)))
				}
				conds[len(arr.f)] = Not(And(Cmp("bvsle", IX(0), idx), Cmp("bvslt", idx, IX(int64(len(arr.f))))))
				k = in.choose(conds)
				if k == len(arr.f) {
					in.goPanic("index out of range (array) in " + fr.fn.String())
				}
			}
			if k < 0 || k >= len(arr.f) {
				in.unsupported("array index")
			}
			return &PtrV{cell: arr.f[k]}
		}
	}
	in.unsupported("indexaddr on %T", in.get(fr, x.X))
	return nil
}

func (in *Interp) slice(fr *frame, x *ssa.Slice) Value {
	opt := func(v ssa.Value, def *Term) *Term {
		if v == nil {
			return def
		}
		return toInt64(in.get(fr, v).(*Term), isSigned(v.Type()))
	}
	chk := func(lo, hi, max *Term) {
		ok := And(And(Cmp("bvsle", IX(0), lo), Cmp("bvsle", lo, hi)), Cmp("bvsle", hi, max))
		if !in.guard(ok) {
			in.goPanic("slice bounds out of range in " + fr.fn.String())
		}
	}
	switch a := in.get(fr, x.X).(type) {
	case *StrV:
		lo, hi := opt(x.Low, IX(0)), opt(x.High, a.len)
		chk(lo, hi, a.len)
		return &StrV{node: a.node, off: Bin("bvadd", a.off, lo), len: Bin("bvsub", hi, lo)}
	case *SliceV:
		lo, hi := opt(x.Low, IX(0)), opt(x.High, a.len)
		chk(lo, hi, a.cap)
		return &SliceV{obj: a.obj, off: Bin("bvadd", a.off, lo), len: Bin("bvsub", hi, lo), cap: Bin("bvsub", a.cap, lo)}
	case *SliceG:
		pick := func(t *Term) int {
			if k, ok := constInt(t); ok {
				return k
			}
			// case split on the concrete value (0..cap, or out of range)
			conds := make([]*Term, a.cap+2)
			for i := 0; i <= a.cap; i++ {
				conds[i] = Eq(t, IX(int64(i)))
			}
			conds[a.cap+1] = Not(And(ICmp("<=", IX(0), t), ICmp("<=", t, IX(int64(a.cap)))))
			k := in.choose(conds)
			if k == a.cap+1 {
				in.goPanic("slice bounds out of range (generic) in " + fr.fn.String())
			}
			return k
		}
		lo := pick(opt(x.Low, IX(0)))
		hi := pick(opt(x.High, IX(int64(a.len))))
		if lo < 0 || lo > hi || hi > a.cap {
			in.goPanic("slice bounds out of range (generic)")
		}
		return &SliceG{cells: a.cells, off: a.off + lo, len: hi - lo, cap: a.cap - lo}
	case *PtrV: // pointer to array
		switch arr := a.cell.v.(type) {
		case *ArrObj:
			n := IX(x.X.Type().Underlying().(*types.Pointer).Elem().Underlying().(*types.Array).Len())
			lo, hi := opt(x.Low, IX(0)), opt(x.High, n)
			chk(lo, hi, n)
			return &SliceV{obj: arr, off: lo, len: Bin("bvsub", hi, lo), cap: Bin("bvsub", n, lo)}
		case *StructObj:
			lo, _ := constInt(opt(x.Low, IX(0)))
			hi, _ := constInt(opt(x.High, IX(int64(len(arr.f)))))
			cells := arr.f
			return &SliceG{cells: &cells, off: lo, len: hi - lo, cap: len(arr.f) - lo}
		}
	}
	in.unsupported("slice of %T", in.get(fr, x.X))
	return nil
}

func (in *Interp) mapUpdate(m *MapV, k, v Value) {
	if m == nil {
		in.goPanic("assignment to entry in nil map")
	}
	for _, e := range m.e {
		c := in.valEq(e.k, k)
		if c.IsTrue() {
			e.v = v
			return
		}
		if !c.IsFalse() {
			if in.branch(c) {
				e.v = v
				return
			}
		}
	}
	m.e = append(m.e, &mapEntry{k, v})
}
func (in *Interp) lookup(fr *frame, x *ssa.Lookup) Value {
	if s, ok := in.get(fr, x.X).(*StrV); ok {
		idx := toInt64(in.get(fr, x.Index).(*Term), isSigned(x.Index.Type()))
		in.boundsCheck(idx, s.len, "string index")
		return s.node.Read(Bin("bvadd", s.off, idx))
	}
	m, _ := in.get(fr, x.X).(*MapV)
	k := in.get(fr, x.Index)
	vt := x.X.Type().Underlying().(*types.Map).Elem()
	var res Value = in.zero(vt)
	found := false
	if m != nil {
		for _, e := range m.e {
			c := in.valEq(e.k, k)
			if c.IsFalse() {
				continue
			}
			if c.IsTrue() || in.branch(c) {
				res, found = e.v, true
				break
			}
		}
	}
	if x.CommaOk {
		return TupleV{res, Bool(found)}
	}
	return res
}

// elemBytes is the size of one element as Go would allocate it (amd64).
func elemBytes(t types.Type) int64 {
	switch u := t.Underlying().(type) {
	case *types.Basic:
		switch w := width(t); {
		case w == 0 || w == 8:
			return 1
		case w > 0:
			return int64(w / 8)
		case u.Info()&types.IsString != 0:
			return 16
		}
		return 8
	case *types.Interface, *types.Slice:
		if _, ok := u.(*types.Slice); ok {
			return 24
		}
		return 16
	case *types.Struct:
		n := int64(0)
		for i := 0; i < u.NumFields(); i++ {
			n += elemBytes(u.Field(i).Type())
		}
		return n
	case *types.Array:
		return u.Len() * elemBytes(u.Elem())
	}
	return 8
}
