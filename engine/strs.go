package main

// Models of the strings package for strings of concrete length and symbolic
// content: every decision about a byte is an ordinary branch of the executor.

func (in *Interp) strLenConst(s *StrV, what string) int {
	n, ok := constInt(s.len)
	if !ok {
		// case split on short lengths
		const maxLen = 24
		conds := make([]*Term, maxLen+2)
		for k := 0; k <= maxLen; k++ {
			conds[k] = Eq(s.len, IX(int64(k)))
		}
		conds[maxLen+1] = ICmp("<", IX(maxLen), s.len)
		n = in.choose(conds)
		if n == maxLen+1 {
			in.end("bound", what+": string longer than the harness bound")
		}
	}
	return n
}

func (s *StrV) at(i int) *Term { return s.node.Read(IArith("+", s.off, IX(int64(i)))) }
func (s *StrV) sub(lo, hi int) *StrV {
	return &StrV{node: s.node, off: IArith("+", s.off, IX(int64(lo))), len: IX(int64(hi - lo))}
}

func (in *Interp) inSet(b *Term, set string) bool {
	c := Bool(false)
	for i := 0; i < len(set); i++ {
		c = Or(c, Eq(b, BV(8, int64(set[i]))))
	}
	return in.branch(c)
}

const asciiSpace = " \t\n\v\f\r"

func (in *Interp) trim(s *StrV, set string, left, right bool, what string) *StrV {
	n := in.strLenConst(s, what)
	lo, hi := 0, n
	if left {
		for lo < hi && in.inSet(s.at(lo), set) {
			lo++
		}
	}
	if right {
		for hi > lo && in.inSet(s.at(hi-1), set) {
			hi--
		}
	}
	return s.sub(lo, hi)
}

// matchAt: does the concrete pattern occur at position i?
func (in *Interp) matchAt(s *StrV, i int, pat string) bool {
	c := Bool(true)
	for k := 0; k < len(pat); k++ {
		c = And(c, Eq(s.at(i+k), BV(8, int64(pat[k]))))
	}
	return in.branch(c)
}

func (in *Interp) strSlice(parts []*StrV) *SliceG {
	cells := make([]*Cell, len(parts))
	for i, p := range parts {
		cells[i] = &Cell{p}
	}
	return &SliceG{cells: &cells, len: len(cells), cap: len(cells)}
}

func (in *Interp) split(s *StrV, sep string, limit int, what string) *SliceG {
	n := in.strLenConst(s, what)
	if sep == "" {
		in.unsupported("%s with empty separator", what)
	}
	var parts []*StrV
	start := 0
	for i := 0; i+len(sep) <= n; {
		if limit > 0 && len(parts) == limit-1 {
			break
		}
		if in.matchAt(s, i, sep) {
			parts = append(parts, s.sub(start, i))
			i += len(sep)
			start = i
		} else {
			i++
		}
	}
	parts = append(parts, s.sub(start, n))
	return in.strSlice(parts)
}

func (in *Interp) contains(s *StrV, pat string, what string) bool {
	n := in.strLenConst(s, what)
	for i := 0; i+len(pat) <= n; i++ {
		if in.matchAt(s, i, pat) {
			return true
		}
	}
	return false
}

// decodeRune mirrors utf8.DecodeRuneInString at byte position i of a string of
// concrete length n: the executor branches on the UTF-8 class of the lead byte
// and on the validity of the continuation bytes; the rune itself stays symbolic.
func (in *Interp) decodeRune(s *StrV, i, n int) (*Term, int) {
	b0 := s.at(i)
	inRange := func(b *Term, lo, hi int64) *Term {
		return And(Cmp("bvule", BV(8, lo), b), Cmp("bvule", b, BV(8, hi)))
	}
	if in.branch(Cmp("bvult", b0, BV(8, 0x80))) {
		return ZExt(b0, 32), 1
	}
	bad := BV(32, 0xFFFD)
	low := func(b *Term, mask int64) *Term { return ZExt(Bin("bvand", b, BV(8, mask)), 32) }
	shl := func(t *Term, k int64) *Term { return Bin("bvshl", t, BV(32, k)) }
	cont := func(k int, lo, hi int64) bool {
		return i+k < n && in.branch(inRange(s.at(i+k), lo, hi))
	}
	switch {
	case in.branch(inRange(b0, 0xC2, 0xDF)):
		if !cont(1, 0x80, 0xBF) {
			return bad, 1
		}
		return Bin("bvor", shl(low(b0, 0x1F), 6), low(s.at(i+1), 0x3F)), 2
	case in.branch(inRange(b0, 0xE0, 0xEF)):
		lo, hi := int64(0x80), int64(0xBF)
		if in.branch(Eq(b0, BV(8, 0xE0))) {
			lo = 0xA0
		} else if in.branch(Eq(b0, BV(8, 0xED))) {
			hi = 0x9F
		}
		if !cont(1, lo, hi) || !cont(2, 0x80, 0xBF) {
			return bad, 1
		}
		return Bin("bvor", Bin("bvor", shl(low(b0, 0x0F), 12), shl(low(s.at(i+1), 0x3F), 6)), low(s.at(i+2), 0x3F)), 3
	case in.branch(inRange(b0, 0xF0, 0xF4)):
		lo, hi := int64(0x80), int64(0xBF)
		if in.branch(Eq(b0, BV(8, 0xF0))) {
			lo = 0x90
		} else if in.branch(Eq(b0, BV(8, 0xF4))) {
			hi = 0x8F
		}
		if !cont(1, lo, hi) || !cont(2, 0x80, 0xBF) || !cont(3, 0x80, 0xBF) {
			return bad, 1
		}
		r := Bin("bvor", shl(low(b0, 0x07), 18), shl(low(s.at(i+1), 0x3F), 12))
		r = Bin("bvor", r, shl(low(s.at(i+2), 0x3F), 6))
		return Bin("bvor", r, low(s.at(i+3), 0x3F)), 4
	}
	return bad, 1
}

// unicode.IsSpace on a symbolic rune
func (in *Interp) isSpaceRune(r *Term) bool {
	eq := func(v int64) *Term { return Eq(r, BV(32, v)) }
	c := Or(And(Cmp("bvule", BV(32, 9), r), Cmp("bvule", r, BV(32, 13))), eq(32))
	for _, v := range []int64{0x85, 0xA0, 0x1680, 0x2028, 0x2029, 0x202F, 0x205F, 0x3000} {
		c = Or(c, eq(v))
	}
	c = Or(c, And(Cmp("bvule", BV(32, 0x2000), r), Cmp("bvule", r, BV(32, 0x200A))))
	return in.branch(c)
}

func (in *Interp) fields(s *StrV) *SliceG {
	n := in.strLenConst(s, "strings.Fields")
	var parts []*StrV
	start := -1
	for i := 0; i < n; {
		r, w := in.decodeRune(s, i, n)
		if in.isSpaceRune(r) {
			if start >= 0 {
				parts = append(parts, s.sub(start, i))
				start = -1
			}
		} else if start < 0 {
			start = i
		}
		i += w
	}
	if start >= 0 {
		parts = append(parts, s.sub(start, n))
	}
	return in.strSlice(parts)
}

func (in *Interp) stringsIntrinsic(name string, args []Value) (Value, bool) {
	str := func(i int) *StrV { return args[i].(*StrV) }
	cst := func(i int) string { return strConst(args[i].(*StrV)) }
	switch name {
	case "strings.TrimSpace":
		return in.trim(str(0), asciiSpace, true, true, name), true
	case "strings.TrimRight":
		return in.trim(str(0), cst(1), false, true, name), true
	case "strings.TrimLeft":
		return in.trim(str(0), cst(1), true, false, name), true
	case "strings.Trim":
		return in.trim(str(0), cst(1), true, true, name), true
	case "strings.Fields":
		return in.fields(str(0)), true
	case "strings.Split":
		return in.split(str(0), cst(1), -1, name), true
	case "strings.SplitN":
		n, _ := constInt(args[2].(*Term))
		return in.split(str(0), cst(1), n, name), true
	case "strings.Contains":
		return Bool(in.contains(str(0), cst(1), name)), true
	case "internal/bytealg.IndexByteString", "strings.IndexByte":
		s := str(0)
		c := args[1].(*Term)
		n := in.strLenConst(s, name)
		for i := 0; i < n; i++ {
			if in.branch(Eq(s.at(i), c)) {
				return IntC(int64(i)), true
			}
		}
		return IntC(-1), true
	case "internal/bytealg.LastIndexByteString", "strings.LastIndexByte":
		s := str(0)
		c := args[1].(*Term)
		n := in.strLenConst(s, name)
		for i := n - 1; i >= 0; i-- {
			if in.branch(Eq(s.at(i), c)) {
				return IntC(int64(i)), true
			}
		}
		return IntC(-1), true
	case "strings.LastIndex":
		s, p := str(0), cst(1)
		n := in.strLenConst(s, name)
		for i := n - len(p); i >= 0; i-- {
			if in.matchAt(s, i, p) {
				return IntC(int64(i)), true
			}
		}
		return IntC(-1), true
	case "internal/bytealg.CountString":
		s := str(0)
		c := args[1].(*Term)
		n := in.strLenConst(s, name)
		cnt := 0
		for i := 0; i < n; i++ {
			if in.branch(Eq(s.at(i), c)) {
				cnt++
			}
		}
		return IntC(int64(cnt)), true
	case "strings.Index":
		s, p := str(0), cst(1)
		n := in.strLenConst(s, name)
		for i := 0; i+len(p) <= n; i++ {
			if in.matchAt(s, i, p) {
				return IntC(int64(i)), true
			}
		}
		return IntC(-1), true
	case "strings.HasPrefix":
		s, p := str(0), cst(1)
		n := in.strLenConst(s, name)
		return Bool(n >= len(p) && in.matchAt(s, 0, p)), true
	case "strings.HasSuffix":
		s, p := str(0), cst(1)
		n := in.strLenConst(s, name)
		return Bool(n >= len(p) && in.matchAt(s, n-len(p), p)), true
	case "strings.TrimPrefix":
		s, p := str(0), cst(1)
		n := in.strLenConst(s, name)
		if n >= len(p) && in.matchAt(s, 0, p) {
			return s.sub(len(p), n), true
		}
		return s, true
	case "strings.Join":
		elems := args[0].(*SliceG)
		sep := str(1)
		r := litStr("")
		for i := 0; i < elems.len; i++ {
			if i > 0 {
				r = in.strConcat(r, sep)
			}
			r = in.strConcat(r, (*elems.cells)[elems.off+i].v.(*StrV))
		}
		return r, true
	}
	return nil, false
}
