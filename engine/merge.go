package main

import (
	"go/token"
	"go/types"

	"golang.org/x/tools/go/ssa"
)

// If-conversion of small side-effect-light diamonds and triangles:
//
//	B: if c goto T else F      T: ...; jump J      F: ...; jump J
//
// Both arms are executed one after the other, each under its guard (added to
// the path condition while the arm runs); stores inside an arm are performed
// conditionally (new = ite(guard, value, old)), and the phis of J become ite
// terms. The result is one path instead of two. Only arms consisting of
// scalar computations, address computations, loads and scalar stores qualify.

type mergeInfo struct {
	ok       bool
	t, f, j  *ssa.BasicBlock // t or f may be nil (triangle)
}

var mergeCache = map[*ssa.If]*mergeInfo{}

func armOK(b *ssa.BasicBlock) bool {
	if len(b.Preds) != 1 || len(b.Succs) != 1 || len(b.Instrs) > 14 {
		return false
	}
	for _, ins := range b.Instrs {
		switch x := ins.(type) {
		case *ssa.Jump, *ssa.DebugRef:
		case *ssa.BinOp:
			if x.Op == token.QUO || x.Op == token.REM {
				if c, ok := x.Y.(*ssa.Const); !ok || c.Value == nil || c.Value.String() == "0" {
					return false
				}
			}
			if !isScalar(x.Type()) {
				return false
			}
		case *ssa.UnOp:
			if x.Op == token.ARROW {
				return false
			}
		case *ssa.Convert:
			if !isScalar(x.Type()) || !isScalar(x.X.Type()) {
				return false
			}
		case *ssa.ChangeType:
			if !isScalar(x.Type()) {
				return false
			}
		case *ssa.FieldAddr, *ssa.IndexAddr:
		case *ssa.Index:
			if !isScalar(x.Type()) {
				return false
			}
		case *ssa.Store:
			if !isScalar(x.Val.Type()) {
				return false
			}
		default:
			return false
		}
	}
	return true
}

func analyzeMerge(x *ssa.If) *mergeInfo {
	if mi, ok := mergeCache[x]; ok {
		return mi
	}
	mi := &mergeInfo{}
	mergeCache[x] = mi
	b := x.Block()
	t, f := b.Succs[0], b.Succs[1]
	if t == f {
		return mi
	}
	switch {
	case armOK(t) && armOK(f) && t.Succs[0] == f.Succs[0] && t.Succs[0] != b:
		mi.t, mi.f, mi.j = t, f, t.Succs[0]
	case armOK(t) && t.Succs[0] == f:
		mi.t, mi.j = t, f
	case armOK(f) && f.Succs[0] == t:
		mi.f, mi.j = f, t
	default:
		return mi
	}
	// the phis of J must be scalar for the merged edges
	for _, ins := range mi.j.Instrs {
		p, ok := ins.(*ssa.Phi)
		if !ok {
			break
		}
		if !isScalar(p.Type()) {
			// allowed only if both merged edges carry the same value
			var vs []ssa.Value
			for i, pred := range mi.j.Preds {
				if pred == mi.t || pred == mi.f || pred == b {
					vs = append(vs, p.Edges[i])
				}
			}
			for _, v := range vs[1:] {
				if v != vs[0] {
					return mi
				}
			}
		}
	}
	mi.ok = true
	return mi
}

// tryMerge executes the diamond below the If as one path. It returns the join
// block (phis already assigned) or nil when the If does not qualify.
func (in *Interp) tryMerge(fr *frame, x *ssa.If, cond *Term) *ssa.BasicBlock {
	if in.noMerge {
		return nil
	}
	mi := analyzeMerge(x)
	if !mi.ok {
		return nil
	}
	b := x.Block()
	runArm := func(arm *ssa.BasicBlock, g *Term) {
		if arm == nil {
			return
		}
		n := len(in.pc)
		saved := in.mergeGuard
		in.assume(g)
		if saved != nil {
			in.mergeGuard = And(saved, g)
		} else {
			in.mergeGuard = g
		}
		in.res.Funcs[fr.fn.String()] += len(arm.Instrs)
		for _, ins := range arm.Instrs {
			in.res.Steps++
			if _, ok := ins.(*ssa.Jump); ok {
				break
			}
			in.curFn = fr.fn
			in.exec(fr, ins)
		}
		in.mergeGuard = saved
		for _, c := range in.pc[n:] {
			delete(in.pcSet, c.id)
		}
		in.pc = in.pc[:n]
	}
	// an arm that is infeasible must not be executed (its obligations would be vacuous
	// but its panics would be reported): fall back to ordinary branching in that case
	if in.sol.Check(in.pc, cond) == "unsat" || in.sol.Check(in.pc, Not(cond)) == "unsat" {
		return nil
	}
	runArm(mi.t, cond)
	runArm(mi.f, Not(cond))
	// phis of the join block
	predT, predF := mi.t, mi.f
	if predT == nil {
		predT = b
	}
	if predF == nil {
		predF = b
	}
	vals := map[*ssa.Phi]Value{}
	for _, ins := range mi.j.Instrs {
		p, ok := ins.(*ssa.Phi)
		if !ok {
			break
		}
		var vt, vf Value
		for i, pred := range mi.j.Preds {
			if pred == predT {
				vt = in.get(fr, p.Edges[i])
			}
			if pred == predF {
				vf = in.get(fr, p.Edges[i])
			}
		}
		tt, ok1 := vt.(*Term)
		tf, ok2 := vf.(*Term)
		if ok1 && ok2 {
			if tt.w != tf.w {
				in.unsupported("merge: phi sort mismatch")
			}
			vals[p] = Ite(cond, tt, tf)
		} else {
			vals[p] = vt
		}
	}
	for p, v := range vals {
		fr.loc[p] = v
	}
	in.res.Reach["merged-diamonds"]++
	return mi.j
}

var _ = types.Typ
