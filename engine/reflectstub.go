package main

import (
	"go/types"
	"reflect"
)

// A small model of package reflect, enough to execute dsn.TagToField and
// dsn.setValue from their real SSA: a reflect.Value is a typed reference to the
// heap cell that holds the value, a reflect.Type carries the static go/types
// type (struct tags included). Only the methods listed in reflectIntrinsic are
// modelled; any other use of reflect ends the path as unsupported.

type fieldRef struct {
	cell *Cell
	typ  types.Type
}

var rtypePtr types.Type

func (in *Interp) reflectRtype() types.Type {
	if rtypePtr == nil {
		p := in.prog.ImportedPackage("reflect")
		if p == nil {
			in.unsupported("package reflect not loaded")
		}
		rtypePtr = types.NewPointer(p.Type("rtype").Type())
	}
	return rtypePtr
}

func kindOf(t types.Type) reflect.Kind {
	switch u := t.Underlying().(type) {
	case *types.Basic:
		switch u.Kind() {
		case types.Bool:
			return reflect.Bool
		case types.String:
			return reflect.String
		case types.Int:
			return reflect.Int
		case types.Int8:
			return reflect.Int8
		case types.Int16:
			return reflect.Int16
		case types.Int32:
			return reflect.Int32
		case types.Int64:
			return reflect.Int64
		case types.Uint:
			return reflect.Uint
		case types.Uint8:
			return reflect.Uint8
		case types.Uint16:
			return reflect.Uint16
		case types.Uint32:
			return reflect.Uint32
		case types.Uint64:
			return reflect.Uint64
		case types.Float32:
			return reflect.Float32
		case types.Float64:
			return reflect.Float64
		}
	case *types.Pointer:
		return reflect.Ptr
	case *types.Struct:
		return reflect.Struct
	case *types.Interface:
		return reflect.Interface
	case *types.Slice:
		return reflect.Slice
	case *types.Map:
		return reflect.Map
	case *types.Array:
		return reflect.Array
	case *types.Chan:
		return reflect.Chan
	case *types.Signature:
		return reflect.Func
	}
	return reflect.Invalid
}

func refOf(v Value) *fieldRef {
	if ov, ok := v.(*OpaqueV); ok && ov.tag == "reflect.Value" {
		return ov.ref
	}
	return nil
}

func mkRef(c *Cell, t types.Type) *OpaqueV {
	return &OpaqueV{tag: "reflect.Value", ref: &fieldRef{c, t}}
}

func (in *Interp) reflectIntrinsic(fn string, args []Value) (Value, bool) {
	need := func() *fieldRef {
		r := refOf(args[0])
		if r == nil {
			in.goPanic("reflect: call of " + fn + " on zero Value")
		}
		return r
	}
	structOf := func(r *fieldRef) (*types.Struct, *StructObj) {
		st, ok := r.typ.Underlying().(*types.Struct)
		so, ok2 := r.cell.v.(*StructObj)
		if !ok || !ok2 {
			in.goPanic("reflect: " + fn + " of non-struct type " + r.typ.String())
		}
		return st, so
	}
	switch fn {
	case "reflect.ValueOf":
		iv, _ := args[0].(*IfaceV)
		if iv == nil {
			return in.zero(in.prog.ImportedPackage("reflect").Type("Value").Type()), true
		}
		return mkRef(&Cell{iv.val}, iv.typ), true
	case "(reflect.Value).Kind":
		if r := refOf(args[0]); r != nil {
			return BV(64, int64(kindOf(r.typ))), true
		}
		return BV(64, 0), true
	case "(reflect.Value).Elem":
		r := need()
		switch r.typ.Underlying().(type) {
		case *types.Pointer:
			pv, _ := r.cell.v.(*PtrV)
			if pv == nil || pv.cell == nil {
				return in.zero(in.prog.ImportedPackage("reflect").Type("Value").Type()), true
			}
			return mkRef(pv.cell, r.typ.Underlying().(*types.Pointer).Elem()), true
		case *types.Interface:
			iv, _ := r.cell.v.(*IfaceV)
			if iv == nil {
				return in.zero(in.prog.ImportedPackage("reflect").Type("Value").Type()), true
			}
			return mkRef(&Cell{iv.val}, iv.typ), true
		}
		in.goPanic("reflect: call of reflect.Value.Elem on " + r.typ.String())
	case "(reflect.Value).Type":
		r := need()
		return &IfaceV{typ: in.reflectRtype(), val: &OpaqueV{tag: "reflect.Type", ref: &fieldRef{typ: r.typ}}}, true
	case "(reflect.Value).NumField":
		st, _ := structOf(need())
		return IntC(int64(st.NumFields())), true
	case "(reflect.Value).Field":
		r := need()
		st, so := structOf(r)
		i, ok := constInt(args[1].(*Term))
		if !ok {
			in.unsupported("reflect.Value.Field with symbolic index")
		}
		if i < 0 || i >= st.NumFields() {
			in.goPanic("reflect: Field index out of range")
		}
		return mkRef(so.f[i], st.Field(i).Type()), true
	case "(*reflect.rtype).Field":
		ov, _ := args[0].(*OpaqueV)
		if ov == nil || ov.ref == nil {
			in.unsupported("reflect.Type.Field on unknown type")
		}
		st, ok := ov.ref.typ.Underlying().(*types.Struct)
		if !ok {
			in.goPanic("reflect: Field of non-struct type " + ov.ref.typ.String())
		}
		i, ok := constInt(args[1].(*Term))
		if !ok || i < 0 || i >= st.NumFields() {
			in.goPanic("reflect: Field index out of bounds")
		}
		sft := in.prog.ImportedPackage("reflect").Type("StructField").Type()
		sf := in.zero(sft).(*StructObj)
		sfs := sft.Underlying().(*types.Struct)
		for k := 0; k < sfs.NumFields(); k++ {
			switch sfs.Field(k).Name() {
			case "Name":
				sf.f[k].v = litStr(st.Field(i).Name())
			case "Tag":
				sf.f[k].v = litStr(st.Tag(i))
			case "Anonymous":
				sf.f[k].v = Bool(st.Field(i).Embedded())
			}
		}
		return sf, true
	case "(reflect.StructTag).Get":
		return litStr(reflect.StructTag(strConst(args[0].(*StrV))).Get(strConst(args[1].(*StrV)))), true
	case "(reflect.StructTag).Lookup":
		v, ok := reflect.StructTag(strConst(args[0].(*StrV))).Lookup(strConst(args[1].(*StrV)))
		return TupleV{litStr(v), Bool(ok)}, true
	case "(reflect.Value).String":
		r := need()
		if sv, isStr := r.cell.v.(*StrV); isStr && kindOf(r.typ) == reflect.String {
			return sv, true
		}
		return litStr("<" + r.typ.String() + " Value>"), true
	case "(reflect.Value).Int":
		r := need()
		if kindOf(r.typ) != reflect.Int && kindOf(r.typ) != reflect.Int64 {
			in.unsupported("reflect.Value.Int of %s", r.typ)
		}
		return r.cell.v, true
	case "(reflect.Value).Bool":
		r := need()
		if kindOf(r.typ) != reflect.Bool {
			in.goPanic("reflect: call of reflect.Value.Bool on " + r.typ.String())
		}
		return r.cell.v, true
	case "(reflect.Value).SetString":
		r := need()
		if kindOf(r.typ) != reflect.String {
			in.goPanic("reflect: call of reflect.Value.SetString on " + r.typ.String())
		}
		r.cell.v = args[1]
		return nil, true
	case "(reflect.Value).SetBool":
		r := need()
		if kindOf(r.typ) != reflect.Bool {
			in.goPanic("reflect: call of reflect.Value.SetBool on " + r.typ.String())
		}
		r.cell.v = args[1]
		return nil, true
	case "(reflect.Value).SetInt":
		r := need()
		if k := kindOf(r.typ); k != reflect.Int && k != reflect.Int64 {
			if k >= reflect.Int8 && k <= reflect.Int32 {
				in.unsupported("reflect.Value.SetInt on narrow %s", r.typ)
			}
			in.goPanic("reflect: call of reflect.Value.SetInt on " + r.typ.String())
		}
		r.cell.v = args[1]
		return nil, true
	}
	return nil, false
}
