package main

import (
	"math/big"
	"strings"
)

// math/big.Int as a mathematical Int term (BigObj). Operations that depend on
// the size of the value (Bytes, BitLen, String) case-split on the number of
// bytes / digits, bounded by bigMaxBytes / bigMaxDigits.

const (
	bigMaxBytes  = 17
	bigMaxDigits = 40
)

func (in *Interp) bigOf(p Value) *BigObj {
	pp, _ := p.(*PtrV)
	if pp == nil || pp.cell == nil {
		in.goPanic("nil *big.Int")
	}
	b, ok := pp.cell.v.(*BigObj)
	if !ok {
		in.unsupported("big.Int cell holds %T", pp.cell.v)
	}
	return b
}

func iabs(t *Term) *Term {
	if t.IsConst() {
		return IntBig(new(big.Int).Abs(t.c))
	}
	if t.nonNeg() {
		return t
	}
	r := Ite(ICmp("<=", IntC(0), t), t, IArith("-", IntC(0), t))
	lo, hi := t.bounds()
	if lo != nil && hi != nil {
		setBounds(r, big.NewInt(0), maxBig(new(big.Int).Abs(lo), new(big.Int).Abs(hi)))
	}
	return r
}

func pow256(k int) *Term { return IntBig(new(big.Int).Lsh(big.NewInt(1), uint(8*k))) }
func pow10(k int) *Term  { return IntBig(new(big.Int).Exp(big.NewInt(10), big.NewInt(int64(k)), nil)) }

// byteLen case-splits on the number of bytes of |v| (0 for zero).
func (in *Interp) byteLen(a *Term) int {
	if a.IsConst() {
		return (a.c.BitLen() + 7) / 8
	}
	conds := make([]*Term, bigMaxBytes+2)
	conds[0] = Eq(a, IntC(0))
	for k := 1; k <= bigMaxBytes; k++ {
		conds[k] = And(ICmp("<=", pow256(k-1), a), ICmp("<", a, pow256(k)))
	}
	conds[bigMaxBytes+1] = ICmp("<=", pow256(bigMaxBytes), a)
	k := in.choose(conds)
	if k == bigMaxBytes+1 {
		in.end("bound", "big.Int with more bytes than the harness bound")
	}
	return k
}

func (in *Interp) bigIntrinsic(name string, args []Value) (Value, bool) {
	if !strings.Contains(name, "math/big.") {
		return nil, false
	}
	short := name[strings.LastIndex(name, ".")+1:]
	if name == "math/big.NewInt" {
		return &PtrV{cell: &Cell{&BigObj{v: BV2Int(args[0].(*Term), true)}}}, true
	}
	if !strings.HasPrefix(name, "(*math/big.Int).") {
		return nil, false
	}
	z := in.bigOf(args[0])
	switch short {
	case "SetInt64":
		z.dig, z.byt = nil, nil
		z.v = BV2Int(args[1].(*Term), true)
		return args[0], true
	case "SetUint64":
		z.v = BV2Int(args[1].(*Term), false)
		return args[0], true
	case "Set":
		z.v, z.dig, z.byt = in.bigOf(args[1]).v, in.bigOf(args[1]).dig, in.bigOf(args[1]).byt
		return args[0], true
	case "Int64":
		return in.intResult(z.v), true // low 64 bits, two's complement
	case "Uint64":
		return Int2BV(z.v, 64), true
	case "IsInt64":
		return And(ICmp("<=", IntBig(minInt64), z.v), ICmp("<=", z.v, IntBig(maxInt64))), true
	case "Sign":
		return Ite(ICmp("<", z.v, IntC(0)), IntC(-1), Ite(Eq(z.v, IntC(0)), IntC(0), IntC(1))), true
	case "Neg":
		x := in.bigOf(args[1])
		z.v, z.dig, z.byt = IArith("-", IntC(0), x.v), x.dig, x.byt
		return args[0], true
	case "Abs":
		x := in.bigOf(args[1])
		z.v, z.dig, z.byt = iabs(x.v), x.dig, x.byt
		return args[0], true
	case "Add":
		x, y := in.bigOf(args[1]), in.bigOf(args[2])
		z.dig, z.byt = nil, nil
		// adding zero keeps the textual form
		if x.v.IsConst() && x.v.c.Sign() == 0 {
			z.dig, z.byt = y.dig, y.byt
		} else if y.v.IsConst() && y.v.c.Sign() == 0 {
			z.dig, z.byt = x.dig, x.byt
		}
		z.v = IArith("+", x.v, y.v)
		return args[0], true
	case "Add-unused":
		z.v = IArith("+", in.bigOf(args[1]).v, in.bigOf(args[2]).v)
		return args[0], true
	case "Sub":
		z.dig, z.byt = nil, nil
		z.v = IArith("-", in.bigOf(args[1]).v, in.bigOf(args[2]).v)
		return args[0], true
	case "Mul":
		z.dig, z.byt = nil, nil
		z.v = IArith("*", in.bigOf(args[1]).v, in.bigOf(args[2]).v)
		return args[0], true
	case "Exp":
		x, y := in.bigOf(args[1]).v, in.bigOf(args[2]).v
		if m, _ := args[3].(*PtrV); m != nil && m.cell != nil {
			in.unsupported("big.Int.Exp with modulus")
		}
		if !y.IsConst() {
			// small exponents: case split
			conds := make([]*Term, bigMaxDigits+2)
			for k := 0; k <= bigMaxDigits; k++ {
				conds[k] = Eq(y, IntC(int64(k)))
			}
			conds[bigMaxDigits+1] = Not(And(ICmp("<=", IntC(0), y), ICmp("<=", y, IntC(bigMaxDigits))))
			k := in.choose(conds)
			if k == bigMaxDigits+1 {
				in.end("bound", "big.Int.Exp exponent outside the harness bound")
			}
			y = IntC(int64(k))
		}
		if y.c.Sign() <= 0 {
			z.v = IntC(1)
			return args[0], true
		}
		if x.IsConst() {
			z.v = IntBig(new(big.Int).Exp(x.c, y.c, nil))
			return args[0], true
		}
		r := IntC(1)
		for i := int64(0); i < y.c.Int64(); i++ {
			r = IArith("*", r, x)
		}
		z.v = r
		return args[0], true
	case "Cmp":
		o := in.bigOf(args[1]).v
		return Ite(ICmp("<", z.v, o), IntC(-1), Ite(Eq(z.v, o), IntC(0), IntC(1))), true
	case "BitLen":
		a := iabs(z.v)
		if a.IsConst() {
			return IX(int64(a.c.BitLen())), true
		}
		// case split on the bit length
		maxBits := 8 * bigMaxBytes
		conds := make([]*Term, maxBits+2)
		conds[0] = Eq(a, IntC(0))
		for k := 1; k <= maxBits; k++ {
			conds[k] = And(ICmp("<=", IntBig(new(big.Int).Lsh(big.NewInt(1), uint(k-1))), a), ICmp("<", a, IntBig(new(big.Int).Lsh(big.NewInt(1), uint(k)))))
		}
		conds[maxBits+1] = ICmp("<=", IntBig(new(big.Int).Lsh(big.NewInt(1), uint(maxBits))), a)
		k := in.choose(conds)
		if k == maxBits+1 {
			in.end("bound", "big.Int larger than the harness bound")
		}
		return IX(int64(k)), true
	case "Bytes":
		if z.byt != nil && !z.v.IsConst() {
			// the bytes the value was set from, without leading zero bytes
			n, _ := constInt(z.byt.len)
			lo := 0
			for lo < n && in.branch(Eq(z.byt.obj.node.Read(IArith("+", z.byt.off, IX(int64(lo)))), BV(8, 0))) {
				lo++
			}
			k := IX(int64(n - lo))
			return &SliceV{obj: z.byt.obj, off: IArith("+", z.byt.off, IX(int64(lo))), len: k, cap: k}, true
		}
		a := iabs(z.v)
		k := in.byteLen(a)
		node := zeroArr(8)
		for i := 0; i < k; i++ {
			b := IArith("mod", IArith("div", a, pow256(k-1-i)), IntC(256))
			node = node.Store(IX(int64(i)), Int2BV(b, 8))
		}
		n := IX(int64(k))
		return &SliceV{obj: &ArrObj{node: node, ew: 8}, off: IX(0), len: n, cap: n}, true
	case "SetBytes":
		s := args[1].(*SliceV)
		n, ok := constInt(s.len)
		if !ok {
			conds := make([]*Term, bigMaxBytes+18)
			for k := range conds {
				conds[k] = Eq(s.len, IX(int64(k)))
			}
			n = in.choose(conds)
		}
		v := IntC(0)
		for i := 0; i < n; i++ {
			b := BV2Int(s.obj.node.Read(IArith("+", s.off, IX(int64(i)))), false)
			v = IArith("+", IArith("*", v, IntC(256)), b)
		}
		z.v, z.dig = v, nil
		// snapshot of the bytes (SetBytes does not retain its argument)
		snap := zeroArr(8).Copy(IX(0), s.obj.node, s.off, IX(int64(n)))
		z.byt = &SliceV{obj: &ArrObj{node: snap, ew: 8}, off: IX(0), len: IX(int64(n)), cap: IX(int64(n))}
		return args[0], true
	case "SetString":
		s := args[1].(*StrV)
		base, _ := constInt(args[2].(*Term))
		if base != 10 {
			in.unsupported("big.Int.SetString base %d", base)
		}
		n, ok := constInt(s.len)
		if !ok {
			in.unsupported("big.Int.SetString of a string with symbolic length")
		}
		fail := TupleV{&PtrV{}, Bool(false)}
		if n == 0 {
			return fail, true
		}
		neg := Bool(false)
		start := 0
		first := s.node.Read(IArith("+", s.off, IX(0)))
		// optional sign
		switch {
		case first.IsConst() && (first.Uint() == '-' || first.Uint() == '+'):
			neg = Bool(first.Uint() == '-')
			start = 1
		case !first.IsConst():
			if in.branch(Eq(first, BV(8, '-'))) {
				neg, start = Bool(true), 1
			} else if in.branch(Eq(first, BV(8, '+'))) {
				start = 1
			}
		}
		if start == n {
			return fail, true
		}
		v := IntC(0)
		for i := start; i < n; i++ {
			b := s.node.Read(IArith("+", s.off, IX(int64(i))))
			isDigit := And(Cmp("bvule", BV(8, '0'), b), Cmp("bvule", b, BV(8, '9')))
			if b.IsConst() && b.Uint() == '_' {
				return fail, true // base-prefix syntax only
			}
			if !in.branch(isDigit) {
				return fail, true
			}
			v = IArith("+", IArith("*", v, IntC(10)), BV2Int(Bin("bvsub", b, BV(8, '0')), false))
		}
		z.v = Ite(neg, IArith("-", IntC(0), v), v)
		z.dig, z.byt = s.sub(start, n), nil
		return TupleV{args[0], Bool(true)}, true
	case "String":
		return in.bigStringObj(z), true
	}
	in.unsupported("no model for %s", name)
	return nil, false
}

// bigString renders the decimal numeral of v (case split on the digit count).
func (in *Interp) bigString(v *Term) *StrV {
	if v.IsConst() {
		return litStr(v.c.String())
	}
	neg := in.branch(ICmp("<", v, IntC(0)))
	a := v
	if neg {
		a = IArith("-", IntC(0), v)
	}
	conds := make([]*Term, bigMaxDigits+1)
	conds[0] = ICmp("<", a, IntC(10)) // one digit (including zero)
	for k := 1; k < bigMaxDigits; k++ {
		conds[k] = And(ICmp("<=", pow10(k), a), ICmp("<", a, pow10(k+1)))
	}
	conds[bigMaxDigits] = ICmp("<=", pow10(bigMaxDigits), a)
	k := in.choose(conds)
	if k == bigMaxDigits {
		in.end("bound", "big.Int with more digits than the harness bound")
	}
	nd := k + 1
	node := zeroArr(8)
	off := 0
	if neg {
		node = node.Store(IX(0), BV(8, '-'))
		off = 1
	}
	for i := 0; i < nd; i++ {
		d := IArith("mod", IArith("div", a, pow10(nd-1-i)), IntC(10))
		node = node.Store(IX(int64(off+i)), Int2BV(IArith("+", d, IntC('0')), 8))
	}
	return &StrV{node: node, off: IX(0), len: IX(int64(off + nd))}
}

// bigStringObj renders z; when z still carries the digits it was parsed from,
// the text is those digits without leading zeros (no arithmetic involved).
func (in *Interp) bigStringObj(z *BigObj) *StrV {
	if z.dig == nil || z.v.IsConst() {
		return in.bigString(z.v)
	}
	n, _ := constInt(z.dig.len)
	lo := 0
	for lo < n-1 && in.branch(Eq(z.dig.at(lo), BV(8, '0'))) {
		lo++
	}
	d := z.dig.sub(lo, n)
	if in.branch(ICmp("<", z.v, IntC(0))) {
		return in.strConcat(litStr("-"), d)
	}
	return d
}
