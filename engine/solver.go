package main

import (
	"bufio"
	"fmt"
	"io"
	"math/big"
	"os"
	"os/exec"
	"strings"
	"time"
)

type Solver struct {
	cmd      *exec.Cmd
	in       *bufio.Writer
	inRaw    io.WriteCloser
	out      *bufio.Reader
	level    int
	defined  map[int]int    // term id -> level
	declared map[string]int // name -> level
	asserted []*Term        // one push frame per entry
	queries  int
	nsat     int
	nunsat   int
	nunk     int
	nerr     int
	dur      time.Duration
	maxQ     time.Duration
	log      io.Writer
	inModel  bool
	ctx      string
	fb       *Solver // non-incremental fallback process (lazily started)
	isFB     bool
	useFB    bool // current model state lives in the fallback
	bin      string
	tmo      int
	fbCalls  int
	nrestart int
	nrecovered int // restarts whose query was then decided by the fallback solver
	durModel time.Duration
	dump     *os.File // verdict queries for cross-solver diff
}

func NewSolver(bin string, timeoutMs int) *Solver {
	var cmd *exec.Cmd
	switch {
	case strings.Contains(bin, "cvc5"):
		cmd = exec.Command(bin, "--incremental", "--produce-models", fmt.Sprintf("--tlimit-per=%d", timeoutMs), "--lang=smt2")
	default:
		cmd = exec.Command(bin, "-in", fmt.Sprintf("-t:%d", timeoutMs))
	}
	in, _ := cmd.StdinPipe()
	out, _ := cmd.StdoutPipe()
	cmd.Stderr = os.Stderr
	if err := cmd.Start(); err != nil {
		panic(err)
	}
	s := &Solver{bin: bin, tmo: timeoutMs, cmd: cmd, inRaw: in, in: bufio.NewWriterSize(in, 1<<16), out: bufio.NewReaderSize(out, 1<<16), defined: map[int]int{}, declared: map[string]int{}}
	if p := os.Getenv("SYMGO_SMTLOG"); p != "" {
		f, _ := os.Create(p)
		s.log = f
	}
	s.send("(set-option :print-success false)")
	if !strings.Contains(bin, "cvc5") {
		s.send("(set-option :timeout 2500)")
	}
	if strings.Contains(bin, "cvc5") {
		s.send("(set-logic ALL)")
	}
	return s
}
func (s *Solver) Close() {
	if s.fb != nil {
		s.fb.Close()
	}
	s.send("(exit)")
	s.in.Flush()
	s.inRaw.Close()
	s.cmd.Wait()
}
func (s *Solver) send(l string) {
	if s.log != nil {
		fmt.Fprintln(s.log, l)
	}
	s.in.WriteString(l)
	s.in.WriteByte('\n')
}
func (s *Solver) push() { s.send("(push)"); s.level++ }
func (s *Solver) pop() {
	if s.level == 0 {
		return // the process was restarted underneath this scope
	}
	s.send("(pop)")
	s.level--
	for k, l := range s.defined {
		if l > s.level {
			delete(s.defined, k)
		}
	}
	for k, l := range s.declared {
		if l > s.level {
			delete(s.declared, k)
		}
	}
}
func (s *Solver) define(t *Term) {
	switch t.op {
	case "true", "false", "const":
		return
	case "var":
		if _, ok := s.declared[t.name]; !ok {
			s.send(fmt.Sprintf("(declare-const %s %s)", smtName(t.name), sortStr(t.w)))
			s.declared[t.name] = s.level
			// the declared range of an Int input is part of its declaration
			// (term construction relies on it for static simplification)
			if t.w == SortInt && t.lo != nil && t.hi != nil {
				s.send(fmt.Sprintf("(assert (and (<= %s %s) (<= %s %s)))", IntBig(t.lo).ref(), smtName(t.name), smtName(t.name), IntBig(t.hi).ref()))
			}
		}
		return
	}
	if _, ok := s.defined[t.id]; ok {
		return
	}
	for _, a := range t.args {
		s.define(a)
	}
	if t.op == "app" {
		if _, ok := s.declared[t.name]; !ok {
			s.send(fmt.Sprintf("(declare-fun %s (%s) %s)", smtName(t.name), sortStr(t.args[0].w), sortStr(t.w)))
			s.declared[t.name] = s.level
		}
	}
	s.send(fmt.Sprintf("(define-fun t%d () %s %s)", t.id, sortStr(t.w), t.def()))
	s.defined[t.id] = s.level
}
func smtName(n string) string { return "|" + n + "|" }
func (s *Solver) assert(t *Term) {
	s.define(t)
	s.send("(assert " + t.ref() + ")")
}

// Sync makes the solver's assertion stack equal to pc.
func (s *Solver) Sync(pc []*Term) {
	i := 0
	for i < len(pc) && i < len(s.asserted) && pc[i] == s.asserted[i] {
		i++
	}
	for len(s.asserted) > i {
		s.pop()
		s.asserted = s.asserted[:len(s.asserted)-1]
	}
	for ; i < len(pc); i++ {
		s.push()
		s.assert(pc[i])
		s.asserted = append(s.asserted, pc[i])
	}
}

// Check returns "sat"/"unsat"/"unknown" for pc ∧ extra.
func (s *Solver) Check(pc []*Term, extra *Term) string {
	if extra.IsFalse() {
		return "unsat"
	}
	s.Sync(pc)
	s.push()
	s.assert(extra)
	t0 := time.Now()
	n0 := s.nrestart
	r := s.checkSat()
	s.pop()
	if r == "unknown" {
		r = s.fallback(pc, extra)
		if r != "unknown" {
			// a hung incremental process whose query the fallback decided costs nothing
			s.nrecovered += s.nrestart - n0
		}
	}
	if d := os.Getenv("SYMGO_DUMP_SLOW"); d != "" && time.Since(t0) > 3*time.Second {
		os.WriteFile(fmt.Sprintf("%s/q%d-%s.smt2", d, s.queries, r), []byte(Standalone(pc, extra)), 0o644)
	}
	return r
}
func (s *Solver) checkSat() (res string) {
	t0 := time.Now()
	defer func() {
		if r := recover(); r != nil {
			if _, ok := r.(solverDied); !ok {
				panic(r)
			}
			s.restart()
			s.queries++
			s.nunk++
			res = "unknown"
		}
	}()
	s.send("(check-sat)")
	line := s.readLine()
	d := time.Since(t0)
	s.dur += d
	if d > s.maxQ {
		s.maxQ = d
	}
	s.queries++
	if d > slowThreshold {
		fmt.Fprintf(os.Stderr, "slow query #%d: %.1fs -> %s (%s)\n", s.queries, d.Seconds(), line, s.ctx)
	}
	switch line {
	case "sat":
		s.nsat++
	case "unsat":
		s.nunsat++
	default:
		s.nunk++
		if strings.HasPrefix(line, "(error") {
			s.nerr++
			fmt.Fprintln(os.Stderr, "SOLVER ERROR:", line)
		}
		line = "unknown"
	}
	return line
}
type solverDied struct{}

// readLine returns the next non-empty output line. A watchdog kills a solver
// process that does not answer within its time limit plus a grace period; the
// caller then sees a solverDied panic, which checkSat/getValues turn into an
// inconclusive ("unknown") answer after restarting the process.
func (s *Solver) readLine() string {
	s.in.Flush()
	done := make(chan struct{})
	go func() {
		select {
		case <-done:
		case <-time.After(s.watchdog()):
			fmt.Fprintf(os.Stderr, "solver watchdog: no answer, killing solver (%s)\n", s.ctx)
			s.cmd.Process.Kill()
		}
	}()
	defer close(done)
	for {
		l, err := s.out.ReadString('\n')
		if err != nil {
			panic(solverDied{})
		}
		l = strings.TrimSpace(l)
		if l == "" {
			continue
		}
		return l
	}
}

// watchdog is the time after which an unanswered command counts as a hang: the
// incremental solver has a 2.5 s soft limit, the fallback the full limit.
func (s *Solver) watchdog() time.Duration {
	if s.isFB {
		return time.Duration(s.tmo)*time.Millisecond + 20*time.Second
	}
	return 15 * time.Second
}

// restart replaces a dead solver process by a fresh one with an empty stack.
func (s *Solver) restart() {
	s.cmd.Process.Kill()
	s.cmd.Wait()
	n := NewSolver(s.bin, s.tmo)
	s.cmd, s.in, s.inRaw, s.out = n.cmd, n.in, n.inRaw, n.out
	s.level = 0
	s.defined, s.declared = map[int]int{}, map[string]int{}
	s.asserted = nil
	s.inModel = false
	s.nrestart++
}

func (s *Solver) getValues(ts []*Term) (res []string) {
	defer func() {
		if r := recover(); r != nil {
			if _, ok := r.(solverDied); !ok {
				panic(r)
			}
			s.restart()
			res = make([]string, len(ts))
			for i := range res {
				res[i] = "0"
			}
		}
	}()
	res = make([]string, len(ts))
	tm0 := time.Now()
	defer func() { s.durModel += time.Since(tm0) }()
	for i, t := range ts {
		if t.IsConst() {
			res[i] = constString(t)
			continue
		}
		s.define(t)
		s.send("(get-value (" + t.ref() + "))")
		depth, buf := 0, ""
		for {
			l := s.readLine()
			buf += " " + l
			depth += strings.Count(l, "(") - strings.Count(l, ")")
			if depth <= 0 {
				break
			}
		}
		res[i] = parseGetValue(buf)
	}
	return res
}

// ModelBegin checks pc ∧ extra and, if sat, returns values of ts; the solver
// stays in model state until ModelEnd.
func (s *Solver) ModelBegin(pc []*Term, extra *Term, ts []*Term) ([]string, bool) {
	s.Sync(pc)
	s.push()
	s.inModel = true
	// define everything before check-sat so that get-value needs no new definitions
	for _, t := range ts {
		s.define(t)
	}
	s.assert(extra)
	r := s.checkSat()
	if r == "unknown" {
		if s.fallback(pc, extra) == "sat" {
			s.useFB = true
			return s.fb.getValues(ts), true
		}
		return nil, false
	}
	if r != "sat" {
		return nil, false
	}
	return s.getValues(ts), true
}

// ModelMore evaluates more terms in the current model. Terms may need new
// definitions; z3 keeps the model across define-fun (macros), so this works
// as long as no new declarations are involved.
func (s *Solver) ModelMore(ts []*Term) []string {
	if s.useFB {
		return s.fb.getValues(ts)
	}
	return s.getValues(ts)
}
func (s *Solver) ModelEnd() {
	s.useFB = false
	if s.inModel {
		s.pop()
		s.inModel = false
	}
}

func constString(t *Term) string {
	switch t.op {
	case "true":
		return "1"
	case "false":
		return "0"
	}
	if t.w < 0 {
		return t.c.String()
	}
	return t.c.String()
}

// parseGetValue turns "((t12 #x0a))" / "((|x!1| (_ bv3 8)))" / "((t3 true))" / "((t5 (- 3)))" into a decimal string (unsigned for bit-vectors).
func parseGetValue(s string) string {
	s = strings.TrimSpace(s)
	// strip outer (( name value ))
	s = strings.TrimPrefix(s, "((")
	s = strings.TrimSuffix(s, "))")
	s = strings.TrimSpace(s)
	// drop the name (may be |quoted| or (app ...) form)
	var rest string
	switch {
	case strings.HasPrefix(s, "|"):
		i := strings.Index(s[1:], "|")
		rest = s[i+2:]
	case strings.HasPrefix(s, "("):
		depth := 0
		for i, c := range s {
			if c == '(' {
				depth++
			}
			if c == ')' {
				depth--
				if depth == 0 {
					rest = s[i+1:]
					break
				}
			}
		}
	default:
		i := strings.IndexAny(s, " \t")
		rest = s[i+1:]
	}
	v := strings.TrimSpace(rest)
	switch {
	case v == "true":
		return "1"
	case v == "false":
		return "0"
	case strings.HasPrefix(v, "#x"):
		n, _ := new(big.Int).SetString(v[2:], 16)
		return n.String()
	case strings.HasPrefix(v, "#b"):
		n, _ := new(big.Int).SetString(v[2:], 2)
		return n.String()
	case strings.HasPrefix(v, "(_ bv"):
		f := strings.Fields(v[5:])
		return f[0]
	case strings.HasPrefix(v, "(-"):
		return "-" + strings.TrimSpace(strings.TrimSuffix(strings.TrimSpace(v[2:]), ")"))
	}
	return v
}

func parseModelVal(s string, w int) *Term {
	n, ok := new(big.Int).SetString(strings.TrimSpace(s), 10)
	if !ok {
		n = big.NewInt(0)
	}
	switch {
	case w == 0:
		return Bool(n.Sign() != 0)
	case w == SortInt:
		return IntBig(n)
	}
	return BVbig(w, n)
}

// termString renders a term for human-readable samples (bounded depth).
func termString(t *Term, depth int) string {
	switch t.op {
	case "true", "false":
		return t.op
	case "const":
		if t.w > 0 && t.w <= 64 {
			return fmt.Sprintf("%d", t.c)
		}
		return t.c.String()
	case "var":
		return t.name
	}
	if depth == 0 {
		return "…"
	}
	as := make([]string, len(t.args))
	for i, a := range t.args {
		as[i] = termString(a, depth-1)
	}
	switch t.op {
	case "app":
		return t.name + "[" + as[0] + "]"
	case "zext", "sext":
		return as[0]
	case "extract":
		return "(" + as[0] + ")[" + t.name + "]"
	}
	return "(" + t.op + " " + strings.Join(as, " ") + ")"
}

// Standalone renders pc ∧ extra as a self-contained SMT-LIB2 script.
func Standalone(pc []*Term, extra *Term) string {
	var sb strings.Builder
	seen := map[int]bool{}
	decl := map[string]bool{}
	var def func(t *Term)
	def = func(t *Term) {
		switch t.op {
		case "true", "false", "const":
			return
		case "var":
			if !decl[t.name] {
				decl[t.name] = true
				fmt.Fprintf(&sb, "(declare-const %s %s)\n", smtName(t.name), sortStr(t.w))
				if t.w == SortInt && t.lo != nil && t.hi != nil {
					fmt.Fprintf(&sb, "(assert (and (<= %s %s) (<= %s %s)))\n", IntBig(t.lo).ref(), smtName(t.name), smtName(t.name), IntBig(t.hi).ref())
				}
			}
			return
		}
		if seen[t.id] {
			return
		}
		seen[t.id] = true
		for _, a := range t.args {
			def(a)
		}
		if t.op == "app" && !decl[t.name] {
			decl[t.name] = true
			fmt.Fprintf(&sb, "(declare-fun %s (%s) %s)\n", smtName(t.name), sortStr(t.args[0].w), sortStr(t.w))
		}
		fmt.Fprintf(&sb, "(define-fun t%d () %s %s)\n", t.id, sortStr(t.w), t.def())
	}
	for _, c := range append(append([]*Term{}, pc...), extra) {
		def(c)
		fmt.Fprintf(&sb, "(assert %s)\n", c.ref())
	}
	sb.WriteString("(check-sat)\n")
	return sb.String()
}

// fallback decides pc ∧ extra in a second, non-incremental solver process:
// without push/pop z3 applies its preprocessing + bit-blasting tactic, which
// decides many queries in under a second that the incremental core cannot
// decide within its time limit.
func (s *Solver) fallback(pc []*Term, extra *Term) string {
	if s.isFB {
		return "unknown"
	}
	if s.fb == nil {
		s.fb = NewSolver(s.bin, s.tmo)
		s.fb.isFB = true
		s.fb.send(fmt.Sprintf("(set-option :timeout %d)", s.tmo))
	}
	f := s.fb
	f.send("(reset)")
	f.send("(set-option :print-success false)")
	f.defined, f.declared = map[int]int{}, map[string]int{}
	for _, c := range pc {
		f.assert(c)
	}
	f.assert(extra)
	s.fbCalls++
	s.nunk-- // the incremental "unknown" is superseded by the fallback's answer
	f.ctx = s.ctx + " [fallback]"
	r := f.checkSat()
	s.dur += f.dur
	f.dur = 0
	switch r {
	case "sat":
		s.nsat++
	case "unsat":
		s.nunsat++
	default:
		s.nunk++
	}
	if f.maxQ > s.maxQ {
		s.maxQ = f.maxQ
	}
	s.nerr += f.nerr
	f.nerr = 0
	return r
}

var slowThreshold = func() time.Duration {
	if v := os.Getenv("SYMGO_SLOW_MS"); v != "" {
		var ms int
		fmt.Sscan(v, &ms)
		return time.Duration(ms) * time.Millisecond
	}
	return 3 * time.Second
}()
