package main

import (
	"fmt"
	"sort"
	"go/types"

	"golang.org/x/tools/go/ssa"
)

type Value interface{}

type Cell struct{ v Value }

type PtrV struct {
	cell *Cell   // pointer to a cell (nil => nil pointer)
	arr  *ArrObj // or pointer to element of scalar array
	idx  *Term
}
type StructObj struct{ f []*Cell } // struct or fixed array of non-scalars
type SliceG struct {
	cells         *[]*Cell
	off, len, cap int
	isNil         bool
}
type ArrObj struct {
	node *ArrNode
	ew   int
}
type SliceV struct {
	obj           *ArrObj
	off, len, cap *Term
	isNil         bool
}
type StrV struct {
	node     *ArrNode
	off, len *Term
}
type IfaceV struct {
	typ types.Type
	val Value
}

// OpaqueV is a value the engine carries around but cannot look into (reflect.Type etc.).
type OpaqueV struct {
	tag string
	ref *fieldRef // reflect.Value stub: the addressed struct field
}
type mapEntry struct{ k, v Value }
type MapV struct{ e []*mapEntry }
type FuncV struct {
	fn   *ssa.Function
	bind []Value
	bi   string // builtin/intrinsic name
}
type TupleV []Value
type RangeIter struct {
	str  *StrV
	m    *MapV
	left []*mapEntry
	pos  []*Term
	j    int
}

// ---- layered arrays ----
type ArrNode struct {
	kind           int // 0 base(uf) 1 zero 2 store 3 copy 4 overlay of concrete positions
	cmap           map[int64]*Term
	uf             string
	ew             int
	parent, src    *ArrNode
	idx, val       *Term
	dstOff, srcOff *Term
	n              *Term
}

var ufSeq int

// ufReads records, per path, the index terms at which each input array was read
// (the model of an array input is reported at exactly these positions).
var ufReads map[string][]*Term

func (in *Interp) baseArr(name string, ew int) *ArrNode {
	in.fresh++
	return &ArrNode{kind: 0, uf: fmt.Sprintf("%s_%d", name, in.fresh), ew: ew}
}
func zeroArr(ew int) *ArrNode { return &ArrNode{kind: 1, ew: ew} }
func (a *ArrNode) Store(i, v *Term) *ArrNode {
	if i.IsConst() && i.c.IsInt64() {
		// concrete position: keep an overlay map instead of a chain of stores
		k := i.c.Int64()
		if a.kind == 4 && len(a.cmap) < 512 {
			m := make(map[int64]*Term, len(a.cmap)+1)
			for kk, vv := range a.cmap {
				m[kk] = vv
			}
			m[k] = v
			return &ArrNode{kind: 4, ew: a.ew, parent: a.parent, cmap: m}
		}
		return &ArrNode{kind: 4, ew: a.ew, parent: a, cmap: map[int64]*Term{k: v}}
	}
	return &ArrNode{kind: 2, ew: a.ew, parent: a, idx: i, val: v}
}
func (a *ArrNode) Copy(dstOff *Term, src *ArrNode, srcOff, n *Term) *ArrNode {
	if n.IsConst() && n.c.Sign() == 0 {
		return a
	}
	if n.IsConst() && dstOff.IsConst() && srcOff.IsConst() && n.c.IsInt64() && n.c.Int64() <= 256 && n.c.Int64() > 0 {
		// concrete copy: resolve the source reads now
		base, m := a, map[int64]*Term{}
		if a.kind == 4 && len(a.cmap) < 512 {
			base = a.parent
			for kk, vv := range a.cmap {
				m[kk] = vv
			}
		}
		d, s := dstOff.c.Int64(), srcOff.c.Int64()
		for k := int64(0); k < n.c.Int64(); k++ {
			m[d+k] = src.Read(IX(s + k))
		}
		return &ArrNode{kind: 4, ew: a.ew, parent: base, cmap: m}
	}
	return &ArrNode{kind: 3, ew: a.ew, parent: a, src: src, dstOff: dstOff, srcOff: srcOff, n: n}
}
func (a *ArrNode) Read(i *Term) *Term {
	switch a.kind {
	case 0:
		if ufReads != nil {
			ufReads[a.uf] = append(ufReads[a.uf], i)
		}
		return App(a.uf, a.ew, i)
	case 1:
		switch a.ew {
		case 0:
			return Bool(false)
		case SortInt:
			return IntC(0)
		}
		return BV(a.ew, 0)
	case 4:
		if i.IsConst() && i.c.IsInt64() {
			if t, ok := a.cmap[i.c.Int64()]; ok {
				return t
			}
			return a.parent.Read(i)
		}
		// symbolic position: ite over the overlay (in ascending order for reproducible terms)
		r := a.parent.Read(i)
		ks := make([]int64, 0, len(a.cmap))
		for k := range a.cmap {
			ks = append(ks, k)
		}
		sort.Slice(ks, func(x, y int) bool { return ks[x] < ks[y] })
		// runs of consecutive positions holding the same term (constant tables such as
		// utf8.first) become one range test
		for x := 0; x < len(ks); {
			y := x
			for y+1 < len(ks) && ks[y+1] == ks[y]+1 && a.cmap[ks[y+1]] == a.cmap[ks[x]] {
				y++
			}
			if y == x {
				r = Ite(Eq(i, IX(ks[x])), a.cmap[ks[x]], r)
			} else {
				r = Ite(And(Cmp("bvsle", IX(ks[x]), i), Cmp("bvsle", i, IX(ks[y]))), a.cmap[ks[x]], r)
			}
			x = y + 1
		}
		return r
	case 2:
		c := Eq(i, a.idx)
		if c.IsTrue() {
			return a.val
		}
		if c.IsFalse() {
			return a.parent.Read(i)
		}
		return Ite(c, a.val, a.parent.Read(i))
	default:
		c := And(Cmp("bvsle", a.dstOff, i), Cmp("bvslt", i, Bin("bvadd", a.dstOff, a.n)))
		if c.IsFalse() {
			return a.parent.Read(i)
		}
		s := a.src.Read(Bin("bvadd", Bin("bvsub", i, a.dstOff), a.srcOff))
		if c.IsTrue() {
			return s
		}
		return Ite(c, s, a.parent.Read(i))
	}
}

func constInt(t *Term) (int, bool) {
	if t.IsConst() {
		return int(t.Int()), true
	}
	return 0, false
}

type ChanV struct {
	cap    int
	q      []Value
	closed bool
	id     int
}

// model objects standing in for standard-library types
type BigObj struct {
	v   *Term // math/big.Int as mathematical Int
	dig *StrV // optional: the decimal digits of |v| (with possible leading zeros) when v was parsed from text
	byt *SliceV // optional: the big-endian bytes of |v| (with possible leading zeros) when v was set from bytes
}
type TimeObj struct {
	days, nanos *Term      // days since 0001-01-01 (Int), nanoseconds in day (Int)
	civ         *[3]*Term // year, month, day when known
	clk         *[4]*Term // hour, minute, second, nanosecond when introduced
}
type BufObj struct {
	s  *SliceV // content
	rd *Term   // read offset (nil = 0)
}
type ErrObj struct {
	format  string
	args    []Value
	wrapped *IfaceV
}
