package main

import (
	"encoding/json"
	"flag"
	"fmt"
	"go/types"
	"os"
	"os/exec"
	"path/filepath"
	"regexp"
	"runtime"
	"runtime/pprof"
	"sort"
	"strconv"
	"strings"
	"sync"
	"time"

	"golang.org/x/tools/go/packages"
	"golang.org/x/tools/go/ssa"
	"golang.org/x/tools/go/ssa/ssautil"
)

const (
	repoDir    = "/repo"
	modulePath = "github.com/SAP/go-dblib"
)

var verifDir = "/verif"

func main() {
	if len(os.Args) < 2 {
		fail("usage: symgo check <Cxx> [--tier quick|thorough] | symgo worker ...")
	}
	if v := os.Getenv("VERIF_DIR"); v != "" {
		verifDir = v
	}
	switch os.Args[1] {
	case "worker":
		workerMain(os.Args[2:])
	case "check":
		os.Exit(checkMain(os.Args[2:]))
	case "replay":
		os.Exit(replayMain(os.Args[2:]))
	default:
		fail("unknown command %s", os.Args[1])
	}
}

// ---------------------------------------------------------------- harness discovery

type harnessRef struct {
	Pkg  string // repo-relative package dir ("." for root)
	Name string
	File string
}

var harnessRe = regexp.MustCompile(`(?m)^func (Harness(C\d\d)(T?)_\w+)\(\)`)

// pkgDirOf maps a harness directory name to the repo package dir.
func pkgDirOf(d string) string {
	if d == "_root" {
		return "."
	}
	return strings.ReplaceAll(d, "__", "/")
}

func discover(prop string, thorough bool) ([]harnessRef, error) {
	var refs []harnessRef
	dirs, _ := filepath.Glob(filepath.Join(verifDir, "harness", "*"))
	for _, d := range dirs {
		st, err := os.Stat(d)
		if err != nil || !st.IsDir() {
			continue
		}
		files, _ := filepath.Glob(filepath.Join(d, "*.go"))
		for _, f := range files {
			b, err := os.ReadFile(f)
			if err != nil {
				return nil, err
			}
			for _, m := range harnessRe.FindAllStringSubmatch(string(b), -1) {
				if m[2] != prop {
					continue
				}
				if m[3] == "T" && !thorough {
					continue
				}
				refs = append(refs, harnessRef{Pkg: pkgDirOf(filepath.Base(d)), Name: m[1], File: f})
			}
		}
	}
	sort.Slice(refs, func(i, j int) bool { return refs[i].Name < refs[j].Name })
	return refs, nil
}

// overlayFor builds the overlay (virtual path -> contents) for one package dir.
func overlayFor(pkg string) (map[string][]byte, string, error) {
	hd := pkg
	if pkg == "." {
		hd = "_root"
	}
	hd = strings.ReplaceAll(hd, "/", "__")
	dir := filepath.Join(repoDir, pkg)
	pkgName, err := packageName(dir)
	if err != nil {
		return nil, "", err
	}
	ov := map[string][]byte{}
	files, _ := filepath.Glob(filepath.Join(verifDir, "harness", hd, "*.go"))
	for _, f := range files {
		b, err := os.ReadFile(f)
		if err != nil {
			return nil, "", err
		}
		ov[filepath.Join(dir, "zz_"+filepath.Base(f))] = b
	}
	tmpl, err := os.ReadFile(filepath.Join(verifDir, "harness", "vf_runtime.go.tmpl"))
	if err != nil {
		return nil, "", err
	}
	ov[filepath.Join(dir, "zz_vf_runtime.go")] = []byte(strings.Replace(string(tmpl), "PKGNAME", pkgName, 1))
	return ov, pkgName, nil
}

func packageName(dir string) (string, error) {
	files, _ := filepath.Glob(filepath.Join(dir, "*.go"))
	re := regexp.MustCompile(`(?m)^package (\w+)`)
	for _, f := range files {
		if strings.HasSuffix(f, "_test.go") {
			continue
		}
		b, _ := os.ReadFile(f)
		if m := re.FindSubmatch(b); m != nil {
			return string(m[1]), nil
		}
	}
	return "", fmt.Errorf("no go files in %s", dir)
}

// ---------------------------------------------------------------- worker

var maxSeconds int

type workerOut struct {
	Results []*HarnessResult `json:"results"`
	LoadS   float64          `json:"load_s"`
	Error   string           `json:"error,omitempty"`
}

func workerMain(args []string) {
	fs := flag.NewFlagSet("worker", flag.ExitOnError)
	pkg := fs.String("pkg", ".", "repo-relative package dir")
	hs := fs.String("harness", "", "comma separated harness names")
	tier := fs.String("tier", "quick", "")
	seed := fs.Int64("seed", 0, "")
	out := fs.String("out", "", "")
	solver := fs.String("solver", "z3", "")
	maxPaths := fs.Int("max-paths", 0, "")
	maxSec := fs.Int("max-seconds", 0, "")
	fs.Parse(args)
	maxSeconds = *maxSec
	if p := os.Getenv("SYMGO_PPROF"); p != "" {
		f, _ := os.Create(p)
		pprof.StartCPUProfile(f)
		defer pprof.StopCPUProfile()
	}
	wo := &workerOut{}
	defer func() {
		b, _ := json.Marshal(wo)
		if *out == "" {
			os.Stdout.Write(b)
		} else {
			os.WriteFile(*out, b, 0o644)
		}
	}()
	t0 := time.Now()
	ov, _, err := overlayFor(*pkg)
	if err != nil {
		wo.Error = err.Error()
		return
	}
	cfg := &packages.Config{Mode: packages.LoadAllSyntax, Dir: repoDir, Overlay: ov,
		Env: append(os.Environ(), "GOFLAGS=-mod=mod", "GOPROXY=off", "GOSUMDB=off", "GOTOOLCHAIN=local")}
	pat := "./" + *pkg
	pkgs, err := packages.Load(cfg, pat)
	if err != nil {
		wo.Error = "load: " + err.Error()
		return
	}
	var errs []string
	packages.Visit(pkgs, nil, func(p *packages.Package) {
		for _, e := range p.Errors {
			errs = append(errs, e.Error())
		}
	})
	if len(errs) > 0 {
		wo.Error = "harness does not type-check against the current tree: " + strings.Join(errs, "; ")
		return
	}
	prog, spkgs := ssautil.AllPackages(pkgs, ssa.InstantiateGenerics)
	prog.Build()
	wo.LoadS = time.Since(t0).Seconds()
	for _, h := range strings.Split(*hs, ",") {
		if h == "" {
			continue
		}
		fn := spkgs[0].Func(h)
		if fn == nil {
			wo.Error = "no harness " + h
			return
		}
		wo.Results = append(wo.Results, runHarness(prog, spkgs[0], fn, *tier == "thorough", *seed, *solver, *maxPaths))
	}
}

func runHarness(prog *ssa.Program, hp *ssa.Package, fn *ssa.Function, thorough bool, seed int64, solver string, maxPaths int) (res *HarnessResult) {
	// fresh term table per harness keeps memory bounded
	termTab = map[tkey]*Term{}
	litCache = map[string]*ArrNode{}
	in := &Interp{prog: prog, repoPkgs: map[*ssa.Package]bool{}, loopBound: 64, thorough: thorough, seed: seed, harnessPkg: hp, maxPaths: maxPaths}
	tmo := 60000
	if v := os.Getenv("SYMGO_TIMEOUT_MS"); v != "" {
		tmo, _ = strconv.Atoi(v)
	}
	in.sol = NewSolver(solver, tmo)
	defer in.sol.Close()
	in.errType = types.Universe.Lookup("error").Type()
	for _, p := range prog.AllPackages() {
		if strings.HasPrefix(p.Pkg.Path(), modulePath) {
			in.repoPkgs[p] = true
		}
	}
	in.res = &HarnessResult{Harness: fn.Name(), Outcomes: []*Outcome{}, Notes: []string{}, Samples: []string{}, Witnesses: []*Witness{}, Reach: map[string]int{}, Asserts: map[string]int{}, Funcs: map[string]int{}, Intrinsics: map[string]int{}, Bounds: map[string]int{}}
	in.perID = map[string]int{}
	in.witnessMax = 4
	in.itoaTags = map[*ArrNode]*Term{}
	in.digitTags = map[*Term]*Term{}
	t0 := time.Now()
	if maxSeconds > 0 {
		in.deadline = t0.Add(time.Duration(maxSeconds) * time.Second)
	}
	res = in.res
	defer func() {
		if r := recover(); r != nil {
			buf := make([]byte, 4096)
			n := runtime.Stack(buf, false)
			res.Outcomes = append(res.Outcomes, &Outcome{Kind: "unsupported", ID: "engine-crash", Msg: fmt.Sprintf("%v in %v\n%s", r, in.curFn, buf[:n]), Harness: fn.Name()})
		}
		res.Queries, res.Sat, res.Unsat, res.Unknown = in.sol.queries, in.sol.nsat, in.sol.nunsat, in.sol.nunk
		res.SolverS = in.sol.dur.Seconds()
		res.MaxQueryMs = int(in.sol.maxQ.Milliseconds())
		res.WallS = time.Since(t0).Seconds()
		if in.sol.nrestart > in.sol.nrecovered {
			res.Outcomes = append(res.Outcomes, &Outcome{Kind: "inconclusive", ID: "solver-restart", Msg: fmt.Sprintf("solver process restarted %d times (no answer within the time limit), %d of the queries decided by the fallback solver", in.sol.nrestart, in.sol.nrecovered), Harness: fn.Name()})
		} else if in.sol.nrestart > 0 {
			res.Notes = append(res.Notes, fmt.Sprintf("incremental solver restarted %d times; each of these queries was decided by the fallback solver", in.sol.nrestart))
		}
		if in.sol.durModel > time.Second {
			res.Notes = append(res.Notes, fmt.Sprintf("%.1fs spent in model extraction", in.sol.durModel.Seconds()))
		}
		if in.sol.fbCalls > 0 {
			res.Notes = append(res.Notes, fmt.Sprintf("%d queries decided by the non-incremental fallback solver", in.sol.fbCalls))
		}
		if in.sol.nerr > 0 {
			res.Outcomes = append(res.Outcomes, &Outcome{Kind: "inconclusive", ID: "solver-error", Msg: fmt.Sprintf("%d solver error lines", in.sol.nerr), Harness: fn.Name()})
		}
	}()
	if os.Getenv("SYMGO_DECSTATS") != "" {
		decStats = map[string]int{}
		defer func() {
			for _, k := range sortedKeys(decStats) {
				fmt.Fprintf(os.Stderr, "DEC %6d %s\n", decStats[k], k)
			}
		}()
	}
	in.Explore(fn)
	return res
}

// ---------------------------------------------------------------- check driver

type knownFinding struct {
	ID       string `json:"id"`
	Property string `json:"property"`
	Status   string `json:"status"` // open | fixed
	Commit   string `json:"commit,omitempty"`
	What     string `json:"what"`
}

func loadKnown() []knownFinding {
	var k struct {
		Findings []knownFinding `json:"findings"`
	}
	b, err := os.ReadFile(filepath.Join(verifDir, "known_findings.json"))
	if err == nil {
		json.Unmarshal(b, &k)
	}
	return k.Findings
}

type nativeJob struct {
	Harness string            `json:"harness"`
	Model   map[string]string `json:"model"`
}
type nativeResult struct {
	Harness      string   `json:"harness"`
	Failed       string   `json:"failed"`
	Observed     []string `json:"observed"`
	Reached      []string `json:"reached"`
	AssumeFailed bool     `json:"assume_failed"`
}

// nativeTier is the tier of the current check (harness bounds depend on it natively too).
var nativeTier = "quick"

// runNative executes jobs natively for one package through `go test -overlay`.
func runNative(pkg string, jobs []nativeJob, harnessNames []string, work string, race ...bool) ([]nativeResult, string, error) {
	ov, pkgName, err := overlayFor(pkg)
	if err != nil {
		return nil, "", err
	}
	// generated test entry
	var sb strings.Builder
	fmt.Fprintf(&sb, "package %s\n\nimport \"testing\"\n\nfunc TestVerifReplay(t *testing.T) {\n\ttable := map[string]func(){\n", pkgName)
	for _, h := range harnessNames {
		fmt.Fprintf(&sb, "\t\t%q: %s,\n", h, h)
	}
	sb.WriteString("\t}\n\tif err := vfRunJobs(table); err != nil {\n\t\tt.Fatal(err)\n\t}\n}\n")
	ov[filepath.Join(repoDir, pkg, "zz_vf_replay_test.go")] = []byte(sb.String())
	os.MkdirAll(work, 0o755)
	repl := map[string]string{}
	i := 0
	for virt, content := range ov {
		real := filepath.Join(work, fmt.Sprintf("ov%d_%s", i, filepath.Base(virt)))
		i++
		if err := os.WriteFile(real, content, 0o644); err != nil {
			return nil, "", err
		}
		repl[virt] = real
	}
	ovJSON, _ := json.Marshal(map[string]interface{}{"Replace": repl})
	ovFile := filepath.Join(work, "overlay.json")
	os.WriteFile(ovFile, ovJSON, 0o644)
	jobsFile := filepath.Join(work, "jobs.json")
	outFile := filepath.Join(work, "out.json")
	os.Remove(outFile)
	jb, _ := json.Marshal(jobs)
	os.WriteFile(jobsFile, jb, 0o644)
	targs := []string{"test", "-vet=off", "-count=1", "-timeout", "600s", "-overlay", ovFile, "-run", "^TestVerifReplay$"}
	if len(race) > 0 && race[0] {
		targs = append(targs, "-race")
	}
	cmd := exec.Command("go", append(targs, "./"+pkg)...)
	cmd.Dir = repoDir
	cmd.Env = append(os.Environ(), "GOFLAGS=-mod=mod", "GOPROXY=off", "GOSUMDB=off", "GOTOOLCHAIN=local", "VF_JOBS="+jobsFile, "VF_OUT="+outFile, "VERIF_TIER="+nativeTier)
	outb, err := cmd.CombinedOutput()
	var res []nativeResult
	rb, rerr := os.ReadFile(outFile)
	if rerr != nil {
		return nil, string(outb), fmt.Errorf("native run produced no result (%v): %s", err, tail(string(outb), 2000))
	}
	if e := json.Unmarshal(rb, &res); e != nil {
		return nil, string(outb), e
	}
	return res, string(outb), nil
}

func tail(s string, n int) string {
	if len(s) > n {
		return s[len(s)-n:]
	}
	return s
}

type evidence struct {
	PropertyID  string                 `json:"property_id"`
	Tier        string                 `json:"tier"`
	Seed        int64                  `json:"seed"`
	Level       string                 `json:"level"`
	Coverage    map[string]interface{} `json:"coverage"`
	Assumptions []string               `json:"assumptions"`
	WallS       float64                `json:"wall_s"`
	Violations  int                    `json:"violations"`
}

func checkMain(args []string) int {
	if len(args) < 1 {
		fail("usage: symgo check <Cxx> [--tier ..]")
	}
	prop := args[0]
	fs := flag.NewFlagSet("check", flag.ExitOnError)
	tier := fs.String("tier", os.Getenv("VERIF_TIER"), "quick|thorough")
	only := fs.String("only", "", "regexp: run only matching harnesses")
	jobs := fs.Int("j", 0, "parallel workers")
	noNative := fs.Bool("no-native", false, "skip native validation/replay (debug only; never registered)")
	keep := fs.Bool("keep", false, "keep work dir")
	budget := fs.Int("budget", 0, "per-harness time budget in seconds (0: 240 quick / 1500 thorough)")
	fs.Parse(args[1:])
	if *tier == "" {
		*tier = "quick"
	}
	if *budget == 0 {
		*budget = 240
		if *tier == "thorough" {
			*budget = 1500
		}
	}
	nativeTier = *tier
	seed := int64(0)
	if s := os.Getenv("VERIF_SEED"); s != "" {
		seed, _ = strconv.ParseInt(s, 10, 64)
	}
	t0 := time.Now()
	refs, err := discover(prop, *tier == "thorough")
	if err != nil {
		fail("discover: %v", err)
	}
	if *only != "" {
		re := regexp.MustCompile(*only)
		var r2 []harnessRef
		for _, r := range refs {
			if re.MatchString(r.Name) {
				r2 = append(r2, r)
			}
		}
		refs = r2
	}
	if len(refs) == 0 {
		fail("no harness for %s", prop)
	}
	work := filepath.Join(verifDir, ".work", fmt.Sprintf("%s-%d", prop, os.Getpid()))
	os.MkdirAll(work, 0o755)
	if !*keep {
		defer os.RemoveAll(work)
	}
	self, _ := os.Executable()
	nw := *jobs
	if nw == 0 {
		nw = runtime.NumCPU()
	}
	if nw > len(refs) {
		nw = len(refs)
	}
	// one worker process per harness, nw at a time
	type wres struct {
		ref harnessRef
		out *workerOut
		err string
	}
	results := make([]wres, len(refs))
	sem := make(chan struct{}, nw)
	var wg sync.WaitGroup
	for i, r := range refs {
		wg.Add(1)
		go func(i int, r harnessRef) {
			defer wg.Done()
			sem <- struct{}{}
			defer func() { <-sem }()
			of := filepath.Join(work, fmt.Sprintf("w%d.json", i))
			cmd := exec.Command(self, "worker", "--pkg", r.Pkg, "--harness", r.Name, "--tier", *tier, "--seed", fmt.Sprint(seed), "--out", of, "--max-seconds", fmt.Sprint(*budget))
			cmd.Env = append(os.Environ(), "VERIF_DIR="+verifDir)
			ob, err := cmd.CombinedOutput()
			wo := &workerOut{}
			b, rerr := os.ReadFile(of)
			if rerr != nil || json.Unmarshal(b, wo) != nil {
				results[i] = wres{ref: r, err: fmt.Sprintf("worker failed: %v %s", err, tail(string(ob), 3000))}
				return
			}
			if len(ob) > 0 && os.Getenv("SYMGO_VERBOSE") != "" {
				fmt.Fprintf(os.Stderr, "[%s] %s\n", r.Name, tail(string(ob), 2000))
			}
			results[i] = wres{ref: r, out: wo, err: wo.Error}
			if os.Getenv("SYMGO_VERBOSE") != "" {
				for _, hr := range wo.Results {
					fmt.Fprintf(os.Stderr, "  done %-36s paths=%d completed=%d obl=%d/%d q=%d solver=%.1fs wall=%.1fs outcomes=%d %s\n", hr.Harness, hr.Paths, hr.Done, hr.Discharged, hr.Obligations, hr.Queries, hr.SolverS, hr.WallS, len(hr.Outcomes), wo.Error)
				}
			}
		}(i, r)
	}
	wg.Wait()

	known := loadKnown()
	knownByID := map[string]knownFinding{}
	for _, k := range known {
		knownByID[k.ID] = k
	}

	// aggregate
	broken := []string{}
	var all []*HarnessResult
	byPkg := map[string][]string{}
	pkgOf := map[string]string{}
	for _, r := range results {
		if r.err != "" {
			broken = append(broken, r.ref.Name+": "+r.err)
			continue
		}
		all = append(all, r.out.Results...)
		byPkg[r.ref.Pkg] = append(byPkg[r.ref.Pkg], r.ref.Name)
		pkgOf[r.ref.Name] = r.ref.Pkg
	}
	// candidates needing native replay, witnesses needing validation
	type cand struct {
		o   *Outcome
		pkg string
	}
	var cands []cand
	jobsByPkg := map[string][]nativeJob{}
	jobMeta := map[string][]interface{}{} // parallel: *Outcome or *Witness
	for _, hr := range all {
		pkg := pkgOf[hr.Harness]
		for _, o := range hr.Outcomes {
			switch o.Kind {
			case "violation", "panic", "deadlock", "race":
				cands = append(cands, cand{o, pkg})
				if o.Model == nil && o.HasModel {
					o.Model = map[string]string{}
				}
				if o.Model != nil {
					jobsByPkg[pkg] = append(jobsByPkg[pkg], nativeJob{hr.Harness, o.Model})
					jobMeta[pkg] = append(jobMeta[pkg], o)
				}
			default:
				broken = append(broken, fmt.Sprintf("%s: %s: %s", hr.Harness, o.Kind, o.Msg))
			}
		}
		for _, w := range hr.Witnesses {
			jobsByPkg[pkg] = append(jobsByPkg[pkg], nativeJob{hr.Harness, w.Model})
			jobMeta[pkg] = append(jobMeta[pkg], w)
		}
		// vacuity: every harness must reach its end on at least one path
		if hr.Reach["end"] == 0 && len(hr.Outcomes) == 0 {
			broken = append(broken, hr.Harness+": vacuous (vfReach(\"end\") never reached)")
		}
	}
	validated, mismatches := 0, 0
	confirmed := map[*Outcome]string{} // outcome -> native failure text
	spurious := 0
	if !*noNative {
		for pkg, js := range jobsByPkg {
			// schedule-dependent counterexamples get several native attempts
			attempts := 1
			for _, mt := range jobMeta[pkg] {
				if o, ok := mt.(*Outcome); ok && o.Nondet {
					attempts = 4
				}
			}
			for att := 0; att < attempts; att++ {
				var sel []nativeJob
				var selMeta []interface{}
				for i, j := range js {
					mt := jobMeta[pkg][i]
					if att > 0 {
						o, ok := mt.(*Outcome)
						if !ok || !o.Nondet {
							continue
						}
						if _, done := confirmed[o]; done {
							continue
						}
					}
					sel = append(sel, j)
					selMeta = append(selMeta, mt)
				}
				if len(sel) == 0 {
					break
				}
				// the last attempt for schedule-dependent counterexamples runs under the race detector
				useRace := att > 0 && att == attempts-1
				nres, outText, err := runNative(pkg, sel, byPkg[pkg], filepath.Join(work, "native-"+strings.ReplaceAll(pkg, "/", "_")), useRace)
				if err != nil {
					broken = append(broken, "native run: "+err.Error())
					break
				}
				if useRace && strings.Contains(outText, "WARNING: DATA RACE") {
					for _, mt := range selMeta {
						if o, ok := mt.(*Outcome); ok && o.Nondet {
							if _, done := confirmed[o]; !done {
								confirmed[o] = "data race reported by the Go race detector while replaying the harness natively (schedule found by the engine: " + o.Msg + ")"
							}
						}
					}
				}
				for i, nr := range nres {
					switch m := selMeta[i].(type) {
					case *Outcome:
						if nr.Failed != "" && !nr.AssumeFailed {
							confirmed[m] = nr.Failed
						}
					case *Witness:
						validated++
						if nr.Failed != "" || nr.AssumeFailed || strings.Join(nr.Observed, ";") != strings.Join(m.Observed, ";") {
							mismatches++
							broken = append(broken, fmt.Sprintf("translator validation mismatch in %s: engine %v native %v (failed=%q assume_failed=%v) model=%s", nr.Harness, m.Observed, nr.Observed, nr.Failed, nr.AssumeFailed, fullModel(m.Model)))
						}
					}
				}
			}
		}
		for _, c := range cands {
			if _, ok := confirmed[c.o]; !ok && c.o.Model != nil {
				spurious++
			}
		}
	}

	// classify candidates
	violations := 0
	knownSeen := map[string]bool{}
	os.RemoveAll(filepath.Join(verifDir, "replays", prop))
	os.MkdirAll(filepath.Join(verifDir, "replays", prop), 0o755)
	var lines []string
	for _, c := range cands {
		o := c.o
		nf, ok := confirmed[o]
		if k, isKnown := knownByID[o.Known]; !ok && isKnown && k.Status == "open" && k.Property == prop {
			// inside the region of a recorded finding; this instance did not replay natively
			// (schedule dependent) - neither a new violation nor a pass of that region
			continue
		}
		if !ok && !*noNative {
			if o.Model == nil {
				broken = append(broken, fmt.Sprintf("%s: %s %s without model", o.Harness, o.Kind, o.ID))
			} else {
				broken = append(broken, fmt.Sprintf("%s: counterexample for %q (%s) did not reproduce natively (spurious; encoding too weak) model=%s", o.Harness, o.ID, o.Kind, shortModel(o.Model)))
			}
			continue
		}
		if k, isKnown := knownByID[o.Known]; isKnown && k.Status == "open" && k.Property == prop {
			if !knownSeen[k.ID] {
				knownSeen[k.ID] = true
				lines = append(lines, fmt.Sprintf("KNOWN-FINDING: property=%s %s: %s", prop, k.ID, k.What))
			}
			continue
		}
		violations++
		rp := filepath.Join(verifDir, "replays", prop, fmt.Sprintf("%s-%d.json", o.Harness, violations))
		rb, _ := json.MarshalIndent(map[string]interface{}{"property": prop, "harness": o.Harness, "package": c.pkg, "kind": o.Kind, "assertion": o.ID, "message": o.Msg, "model": o.Model, "native_failure": nf,
			"replay": fmt.Sprintf("%s replay %s", self, rp)}, "", " ")
		os.WriteFile(rp, rb, 0o644)
		lines = append(lines, fmt.Sprintf("VIOLATION property=%s replay=%s", prop, rp))
		fmt.Printf("  %s: %s %q: %s (native: %s)\n", o.Harness, o.Kind, o.ID, o.Msg, nf)
	}

	// evidence
	ev := buildEvidence(prop, *tier, seed, all, validated, violations, len(knownSeen), spurious, time.Since(t0).Seconds(), broken)
	os.MkdirAll(filepath.Join(verifDir, "evidence"), 0o755)
	eb, _ := json.MarshalIndent(ev, "", " ")
	os.WriteFile(filepath.Join(verifDir, "evidence", prop+".json"), eb, 0o644)

	// report
	var paths, obl, dis, q int
	for _, hr := range all {
		paths += hr.Paths
		obl += hr.Obligations
		dis += hr.Discharged
		q += hr.Queries
	}
	fmt.Printf("%s tier=%s harnesses=%d paths=%d obligations=%d discharged=%d queries=%d validated=%d wall=%.1fs\n", prop, *tier, len(all), paths, obl, dis, q, validated, time.Since(t0).Seconds())
	if os.Getenv("SYMGO_VERBOSE") != "" {
		for _, hr := range all {
			fmt.Printf("  %-40s paths=%d done=%d obl=%d/%d q=%d solver=%.1fs wall=%.1fs reach=%v\n", hr.Harness, hr.Paths, hr.Done, hr.Discharged, hr.Obligations, hr.Queries, hr.SolverS, hr.WallS, hr.Reach)
		}
	}
	for _, l := range lines {
		fmt.Println(l)
	}
	if violations > 0 {
		return 1
	}
	if len(broken) > 0 {
		for _, b := range broken {
			fmt.Fprintln(os.Stderr, "INCONCLUSIVE:", b)
		}
		return 2
	}
	return 0
}

func buildEvidence(prop, tier string, seed int64, all []*HarnessResult, validated, violations, knownRepro, spurious int, wall float64, broken []string) *evidence {
	cov := map[string]interface{}{}
	var paths, steps, obl, dis, q, sat, unsat, unk, maxms int
	var solverS float64
	funcs := map[string]int{}
	intr := map[string]int{}
	bounds := map[string]interface{}{}
	var samples []interface{}
	vac := map[string]int{}
	hs := []interface{}{}
	for _, hr := range all {
		paths += hr.Done
		steps += hr.Steps
		obl += hr.Obligations
		dis += hr.Discharged
		q += hr.Queries
		sat += hr.Sat
		unsat += hr.Unsat
		unk += hr.Unknown
		solverS += hr.SolverS
		if hr.MaxQueryMs > maxms {
			maxms = hr.MaxQueryMs
		}
		for k, v := range hr.Funcs {
			if strings.Contains(k, modulePath) && !strings.Contains(k, ".Harness") && !strings.Contains(k, ".vf") {
				funcs[k] += v
			}
		}
		for k, v := range hr.Intrinsics {
			intr[k] += v
		}
		if len(hr.Bounds) > 0 {
			bounds[hr.Harness] = hr.Bounds
		}
		for i, s := range hr.Samples {
			if i < 2 {
				samples = append(samples, map[string]string{"harness": hr.Harness, "path_condition": s})
			}
		}
		vac[hr.Harness] = hr.Reach["end"]
		hs = append(hs, map[string]interface{}{"harness": hr.Harness, "paths_explored": hr.Paths, "paths_completed": hr.Done, "infeasible": hr.Infeasible,
			"obligations": hr.Obligations, "discharged": hr.Discharged, "assertions": hr.Asserts, "queries": hr.Queries, "solver_s": round2(hr.SolverS), "wall_s": round2(hr.WallS), "notes": hr.Notes})
	}
	if len(samples) > 12 {
		samples = samples[:12]
	}
	if len(samples) == 0 {
		samples = append(samples, "no path completed")
	}
	cov["states"] = paths
	cov["transitions"] = steps
	cov["traces_validated_against_impl"] = validated
	cov["samples"] = samples
	cov["obligations"] = obl
	cov["discharged"] = dis
	cov["inconclusive"] = broken
	cov["spurious_cex"] = spurious
	cov["functions_encoded"] = funcs
	cov["intrinsics_used"] = intr
	cov["bounds"] = bounds
	cov["vacuity_witnesses"] = vac
	cov["harnesses"] = hs
	cov["solver"] = map[string]interface{}{"name": "z3 " + z3Version(), "queries": q, "sat": sat, "unsat": unsat, "unknown": unk, "solver_time_s": round2(solverS), "max_query_ms": maxms}
	cov["known_findings_reproduced"] = knownRepro
	cov["explanation"] = "states = feasible symbolic paths of the real code's SSA completed by the executor; transitions = SSA instructions executed symbolically; obligations = assertion/bounds/nil/unwinding instances decided by the SMT solver (unsat of the negation under the path condition)"
	return &evidence{PropertyID: prop, Tier: tier, Seed: seed, Level: "model_checking", Coverage: cov,
		Assumptions: []string{
			"the symgo SSA executor and its intrinsics (fmt.Errorf/errors.Is chains, sync, channels, append capacity = needed length) model Go faithfully; validated per run by replaying solver-chosen path witnesses natively",
			"bounds listed under coverage.bounds; nothing outside them is claimed",
			"z3 4.8.12 answers are correct",
		},
		WallS: round2(wall), Violations: violations}
}

func round2(f float64) float64 { return float64(int(f*100)) / 100 }

var z3v string

func z3Version() string {
	if z3v == "" {
		b, _ := exec.Command("z3", "--version").Output()
		z3v = strings.TrimSpace(strings.TrimPrefix(string(b), "Z3 version "))
	}
	return z3v
}

// replayMain re-runs a recorded counterexample natively.
func replayMain(args []string) int {
	if len(args) < 1 {
		fail("usage: symgo replay <file>")
	}
	b, err := os.ReadFile(args[0])
	if err != nil {
		fail("%v", err)
	}
	var r struct {
		Harness, Package string
		Model            map[string]string
	}
	json.Unmarshal(b, &r)
	work := filepath.Join(verifDir, ".work", fmt.Sprintf("replay-%d", os.Getpid()))
	defer os.RemoveAll(work)
	res, out, err := runNative(r.Package, []nativeJob{{r.Harness, r.Model}}, []string{r.Harness}, work)
	if err != nil {
		fmt.Println(out)
		fail("%v", err)
	}
	for _, x := range res {
		fmt.Printf("harness=%s failed=%q assume_failed=%v observed=%v\n", x.Harness, x.Failed, x.AssumeFailed, x.Observed)
		if x.Failed != "" {
			return 1
		}
	}
	return 0
}

func shortModel(m map[string]string) string {
	var ks []string
	for k := range m {
		ks = append(ks, k)
	}
	sort.Strings(ks)
	var sb strings.Builder
	for _, k := range ks {
		v := m[k]
		if len(v) > 60 {
			v = v[:60] + "…"
		}
		fmt.Fprintf(&sb, "%s=%s ", k, v)
	}
	return sb.String()
}

func fullModel(m map[string]string) string {
	b, _ := json.Marshal(m)
	if len(b) > 1500 {
		b = b[:1500]
	}
	return string(b)
}
