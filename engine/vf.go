package main

import (
	"fmt"
	"math/big"
	"go/types"
	"strings"

	"golang.org/x/tools/go/ssa"
)

const obsSlots = 24

func (in *Interp) inputName(base string) string {
	k := in.inputSeq[base]
	in.inputSeq[base] = k + 1
	return fmt.Sprintf("%s#%d", base, k)
}

func (in *Interp) newInput(base string, w int, kind string) *Term {
	n := in.inputName(base)
	t := Var(n, w)
	in.inputs = append(in.inputs, &Input{Name: n, T: t, Kind: kind})
	return t
}

// flatten lists the scalar terms that make up an observable value.
func (in *Interp) flatten(v Value) []*Term {
	switch x := v.(type) {
	case *Term:
		return []*Term{x}
	case *IfaceV:
		if x == nil {
			return []*Term{BV(8, 0)}
		}
		return in.flatten(x.val)
	case *StrV:
		return in.flattenBytes(x.node, x.off, x.len)
	case *SliceV:
		return in.flattenBytes(x.obj.node, x.off, x.len)
	case *StructObj:
		var r []*Term
		for _, c := range x.f {
			r = append(r, in.flatten(c.v)...)
		}
		return r
	case *ArrObj:
		return nil
	case *PtrV:
		if x.cell == nil && x.arr == nil {
			return []*Term{BV(8, 0)}
		}
		return []*Term{BV(8, 1)}
	case *BigObj:
		return []*Term{x.v}
	case *TimeObj:
		return []*Term{x.days, x.nanos}
	case nil:
		return []*Term{BV(8, 0)}
	}
	in.unsupported("vfObserve of %T", v)
	return nil
}
func (in *Interp) flattenBytes(node *ArrNode, off, n *Term) []*Term {
	r := []*Term{n}
	for i := 0; i < obsSlots; i++ {
		k := IX(int64(i))
		b := node.Read(Bin("bvadd", off, k))
		if b.w != 8 {
			in.unsupported("vfObserve of non-byte slice")
		}
		r = append(r, Ite(Cmp("bvslt", k, n), b, BV(8, 0)))
	}
	return r
}

// harness API
func (in *Interp) vf(fn *ssa.Function, args []Value) Value {
	str := func(i int) string { return strConst(args[i].(*StrV)) }
	in.res.Intrinsics[fn.Name()]++
	switch fn.Name() {
	case "vfInt":
		lo, hi := args[1].(*Term), args[2].(*Term)
		n := in.inputName(str(0))
		var v *Term
		if lo.IsConst() && hi.IsConst() {
			v = IntVarR(n, lo.c, hi.c)
		} else {
			v = IntVar(n)
		}
		in.inputs = append(in.inputs, &Input{Name: n, T: v, Kind: "int"})
		in.assumeFeasible(And(ICmp("<=", lo, v), ICmp("<=", v, hi)))
		return v
	case "vfPick":
		// small enumeration: fork over the concrete values, return a constant
		lo, ok1 := constInt(args[1].(*Term))
		hi, ok2 := constInt(args[2].(*Term))
		if !ok1 || !ok2 || hi < lo || hi-lo > 64 {
			in.unsupported("vfPick needs a small constant range")
		}
		n := in.inputName(str(0))
		v := IntVarR(n, big.NewInt(int64(lo)), big.NewInt(int64(hi)))
		in.inputs = append(in.inputs, &Input{Name: n, T: v, Kind: "int"})
		conds := make([]*Term, hi-lo+1)
		for i := range conds {
			conds[i] = Eq(v, IX(int64(lo+i)))
		}
		return IX(int64(lo + in.choose(conds)))
	case "vfU8":
		return in.newInput(str(0), 8, "int")
	case "vfU16":
		return in.newInput(str(0), 16, "int")
	case "vfU32":
		return in.newInput(str(0), 32, "int")
	case "vfU64":
		return in.newInput(str(0), 64, "int")
	case "vfI8":
		return in.newInput(str(0), 8, "int")
	case "vfI16":
		return in.newInput(str(0), 16, "int")
	case "vfI32":
		return in.newInput(str(0), 32, "int")
	case "vfI64":
		n := in.inputName(str(0))
		t := IntVarR(n, minInt64, maxInt64)
		in.inputs = append(in.inputs, &Input{Name: n, T: t, Kind: "int"})
		return t
	case "vfBool":
		return Eq(in.newInput(str(0), 8, "bool"), BV(8, 1))
	case "vfBytes", "vfString":
		n := args[1].(*Term)
		name := in.inputName(str(0))
		arr := in.baseArr(name, 8)
		in.inputs = append(in.inputs, &Input{Name: name, Arr: arr, Len: n, Kind: "bytes"})
		if fn.Name() == "vfString" {
			return &StrV{node: arr, off: IX(0), len: n}
		}
		return &SliceV{obj: &ArrObj{node: arr, ew: 8}, off: IX(0), len: n, cap: n}
	case "vfAssume":
		in.assumeFeasible(args[0].(*Term))
		return nil
	case "vfAssert":
		in.assertHolds(args[0].(*Term), str(1))
		return nil
	case "vfReach":
		in.res.Reach[str(0)]++
		return nil
	case "vfKnown":
		c := args[1].(*Term)
		if in.branch(c) {
			in.knownTag = str(0)
		}
		return nil
	case "vfObserve":
		in.observed = append(in.observed, obsItem{str(0), args[1]})
		return nil
	case "vfThorough":
		return Bool(in.thorough)
	case "vfNative":
		return Bool(false)
	case "vfBound":
		n, _ := constInt(args[1].(*Term))
		in.res.Bounds[str(0)] = n
		return nil
	case "vfSmallLen":
		n, _ := constInt(args[0].(*Term))
		in.smallLen = n
		in.res.Bounds["elements-per-slice"] = n
		return nil
	case "vfSeqCap":
		n, _ := constInt(args[0].(*Term))
		in.seqCap = n
		return nil
	case "vfLoopBound":
		n, _ := constInt(args[0].(*Term))
		in.loopBound = n
		in.res.Bounds["loop-unwinding"] = n
		return nil
	case "vfFixedMapOrder":
		// maps with pointer values are iterated in insertion order only (stated assumption of the harness)
		in.fixedMapOrder = true
		in.res.Bounds["map-iteration-orders"] = 1
		return nil
	case "vfIgnorePanics":
		in.ignorePanics = args[0].(*Term).IsTrue()
		return nil
	case "vfExpectPanic":
		in.expectPanic = true
		return nil
	case "vfUnwindIsViolation":
		in.unwindViolation = true
		return nil
	case "vfConcurrent":
		n, _ := constInt(args[0].(*Term))
		in.concurrent = true
		in.preemptMax = n
		in.res.Bounds["preemptions"] = n
		return nil
	case "vfSettle":
		in.settle()
		return nil
	case "vfAllocBytes":
		s := IX(0)
		for _, a := range in.allocs {
			s = IArith("+", s, a.bytes)
		}
		return s
	case "vfAllocBytesIn":
		// bytes allocated by make/append inside functions whose name ends with the given suffix
		s := IX(0)
		for _, a := range in.allocs {
			if strings.HasSuffix(a.fn, str(0)) {
				s = IArith("+", s, a.bytes)
			}
		}
		return s
	case "vfDeepEqual":
		return in.deepEq(args[0], args[1], 0)
	case "vfAssertDeepEqual":
		// proving equality of sequences at one fresh (universally quantified) index
		// is equivalent to proving it at every index
		in.skolemSeq = true
		c := in.deepEq(args[0], args[1], 0)
		in.skolemSeq = false
		in.assertHolds(c, str(2))
		return nil
	case "vfRepeat":
		return IX(1)
	case "vfErrMentions":
		// does any argument of the error chain hold the given byte string (same symbolic object)?
		iv, _ := args[0].(*IfaceV)
		var node *ArrNode
		switch s := args[1].(type) {
		case *StrV:
			node = s.node
		case *SliceV:
			node = s.obj.node
		}
		var walk func(v Value, depth int) bool
		walk = func(v Value, depth int) bool {
			if depth > 8 {
				return false
			}
			switch x := v.(type) {
			case *StrV:
				return x.node == node
			case *SliceV:
				return x.obj.node == node
			case *IfaceV:
				if x == nil {
					return false
				}
				if eo := errObjOf(x); eo != nil {
					for _, a := range eo.args {
						if walk(a, depth+1) {
							return true
						}
					}
					return false
				}
				return walk(x.val, depth+1)
			case *PtrV:
				if x.cell != nil {
					return walk(x.cell.v, depth+1)
				}
			case *StructObj:
				for _, c := range x.f {
					if walk(c.v, depth+1) {
						return true
					}
				}
			}
			return false
		}
		return Bool(walk(iv, 0))
	case "vfIsErrorf":
		// reports whether err was built by fmt.Errorf with the given constant format
		iv, _ := args[0].(*IfaceV)
		if iv == nil {
			return Bool(false)
		}
		if p, ok := iv.val.(*PtrV); ok && p.cell != nil {
			if eo, ok := p.cell.v.(*ErrObj); ok {
				return Bool(eo.format == str(1))
			}
		}
		return Bool(false)
	}
	in.unsupported("vf function %s", fn.Name())
	return nil
}

func (in *Interp) assumeFeasible(c *Term) {
	if c.IsTrue() {
		return
	}
	if in.replaying() {
		in.assume(c)
		return
	}
	if c.IsFalse() || in.sol.Check(in.pc, c) == "unsat" {
		in.end("infeasible", "assume")
	}
	in.assume(c)
}

func isVF(fn *ssa.Function) bool {
	return strings.HasPrefix(fn.Name(), "vf") && fn.Signature.Recv() == nil && fn.Parent() == nil
}

var _ = types.Typ

// deepEq builds the term "a and b are structurally equal" (reflect.DeepEqual
// on the shapes harnesses compare: packages and their fields).
func (in *Interp) deepEq(a, b Value, depth int) *Term {
	if depth > 12 {
		in.unsupported("vfDeepEqual: structure too deep")
	}
	switch x := a.(type) {
	case *Term:
		y, ok := b.(*Term)
		if !ok {
			return Bool(false)
		}
		return Eq(x, y)
	case *IfaceV:
		y, _ := b.(*IfaceV)
		if x == nil || y == nil {
			return Bool(x == nil && y == nil)
		}
		if !types.Identical(x.typ, y.typ) {
			return Bool(false)
		}
		return in.deepEq(x.val, y.val, depth+1)
	case *PtrV:
		y, ok := b.(*PtrV)
		if !ok {
			return Bool(false)
		}
		xn, yn := x.cell == nil && x.arr == nil, y.cell == nil && y.arr == nil
		if xn || yn {
			return Bool(xn && yn)
		}
		if x.cell != nil && y.cell != nil {
			if x.cell == y.cell {
				return Bool(true)
			}
			return in.deepEq(x.cell.v, y.cell.v, depth+1)
		}
		return Eq(in.load(x).(*Term), in.load(y).(*Term))
	case *StructObj:
		y, ok := b.(*StructObj)
		if !ok || len(x.f) != len(y.f) {
			return Bool(false)
		}
		r := Bool(true)
		for i := range x.f {
			r = And(r, in.deepEq(x.f[i].v, y.f[i].v, depth+1))
		}
		return r
	case *StrV:
		y, ok := b.(*StrV)
		if !ok {
			return Bool(false)
		}
		return in.seqEq(x.node, x.off, x.len, y.node, y.off, y.len)
	case *SliceV:
		y, ok := b.(*SliceV)
		if !ok {
			return Bool(false)
		}
		// reflect.DeepEqual distinguishes nil and empty slices
		if x.isNil != y.isNil {
			return Bool(false)
		}
		return in.seqEq(x.obj.node, x.off, x.len, y.obj.node, y.off, y.len)
	case *ArrObj:
		y, ok := b.(*ArrObj)
		if !ok {
			return Bool(false)
		}
		return Bool(x.node == y.node)
	case *SliceG:
		y, ok := b.(*SliceG)
		if !ok || x.len != y.len || x.isNil != y.isNil {
			return Bool(false)
		}
		r := Bool(true)
		for i := 0; i < x.len; i++ {
			r = And(r, in.deepEq((*x.cells)[x.off+i].v, (*y.cells)[y.off+i].v, depth+1))
		}
		return r
	case *MapV:
		y, _ := b.(*MapV)
		if x == nil || y == nil {
			return Bool(x == nil && y == nil)
		}
		if len(x.e) != len(y.e) {
			return Bool(false)
		}
		r := Bool(true)
		for _, e := range x.e {
			found := Bool(false)
			for _, f := range y.e {
				found = Or(found, And(in.valEq(e.k, f.k), in.deepEq(e.v, f.v, depth+1)))
			}
			r = And(r, found)
		}
		return r
	case *FuncV:
		y, _ := b.(*FuncV)
		return Bool(x == nil && y == nil)
	case *ChanV:
		y, _ := b.(*ChanV)
		return Bool(x == y)
	case *BufObj:
		y, ok := b.(*BufObj)
		if !ok {
			return Bool(false)
		}
		return in.seqEq(x.s.obj.node, IArith("+", x.s.off, x.rdOff()), IArith("-", x.s.len, x.rdOff()), y.s.obj.node, IArith("+", y.s.off, y.rdOff()), IArith("-", y.s.len, y.rdOff()))
	case *BigObj:
		y, ok := b.(*BigObj)
		return And(Bool(ok), Eq(x.v, y.v))
	case *TimeObj:
		y, ok := b.(*TimeObj)
		if !ok {
			return Bool(false)
		}
		return And(Eq(x.days, y.days), Eq(x.nanos, y.nanos))
	case *OpaqueV:
		y, ok := b.(*OpaqueV)
		return Bool(ok && x.tag == y.tag)
	case TupleV:
		y, ok := b.(TupleV)
		if !ok || len(x) != len(y) {
			return Bool(false)
		}
		r := Bool(true)
		for i := range x {
			r = And(r, in.deepEq(x[i], y[i], depth+1))
		}
		return r
	case nil:
		return Bool(b == nil)
	}
	in.unsupported("vfDeepEqual on %T", a)
	return nil
}

// seqEq: two sequences are equal: same length and same elements. Symbolic
// lengths are handled up to their statically known upper bound.
func (in *Interp) seqEq(na *ArrNode, oa, la *Term, nb *ArrNode, ob, lb *Term) *Term {
	r := Eq(la, lb)
	if r.IsFalse() {
		return r
	}
	if in.skolemSeq && !(la.IsConst() && la.Int() <= 8) {
		in.fresh++
		k := IntVar(fmt.Sprintf("sk!%d", in.fresh))
		in.assume(ICmp("<=", IntC(0), k))
		eq := Eq(na.Read(IArith("+", oa, k)), nb.Read(IArith("+", ob, k)))
		return And(r, Implies(ICmp("<", k, la), eq))
	}
	max := int64(-1)
	for _, l := range []*Term{la, lb} {
		if _, hi := l.bounds(); hi != nil && hi.IsInt64() && (max < 0 || hi.Int64() < max) {
			max = hi.Int64()
		}
	}
	if max < 0 || max > int64(in.seqCap) {
		// no small static bound: the harness bound on compared sequences becomes an obligation
		max = int64(in.seqCap)
		if !in.guard(ICmp("<=", la, IX(max))) {
			in.end("bound", "vfDeepEqual: sequence longer than the harness bound")
		}
	}
	for i := int64(0); i < max; i++ {
		k := IX(i)
		eq := Eq(na.Read(IArith("+", oa, k)), nb.Read(IArith("+", ob, k)))
		if c := ICmp("<", k, la); c.IsTrue() {
			r = And(r, eq)
		} else {
			r = And(r, Implies(c, eq))
		}
	}
	return r
}
