package main

import (
	"fmt"
	"math/big"
	"go/types"
	"strings"

	"golang.org/x/tools/go/ssa"
)

const obsSlots = 24

func (in *Interp) inputName(base string) string {
	k := in.inputSeq[base]
	in.inputSeq[base] = k + 1
	return fmt.Sprintf("%s#%d", base, k)
}

func (in *Interp) newInput(base string, w int, kind string) *Term {
	n := in.inputName(base)
	t := Var(n, w)
	in.inputs = append(in.inputs, &Input{Name: n, T: t, Kind: kind})
	return t
}

// flatten lists the scalar terms that make up an observable value.
func (in *Interp) flatten(v Value) []*Term {
	switch x := v.(type) {
	case *Term:
		return []*Term{x}
	case *IfaceV:
		if x == nil {
			return []*Term{BV(8, 0)}
		}
		return in.flatten(x.val)
	case *StrV:
		return in.flattenBytes(x.node, x.off, x.len)
	case *SliceV:
		return in.flattenBytes(x.obj.node, x.off, x.len)
	case *StructObj:
		var r []*Term
		for _, c := range x.f {
			r = append(r, in.flatten(c.v)...)
		}
		return r
	case *ArrObj:
		return nil
	case *PtrV:
		if x.cell == nil && x.arr == nil {
			return []*Term{BV(8, 0)}
		}
		return []*Term{BV(8, 1)}
	case *BigObj:
		return []*Term{x.v}
	case *TimeObj:
		return []*Term{x.days, x.nanos}
	case nil:
		return []*Term{BV(8, 0)}
	}
	in.unsupported("vfObserve of %T", v)
	return nil
}
func (in *Interp) flattenBytes(node *ArrNode, off, n *Term) []*Term {
	r := []*Term{n}
	for i := 0; i < obsSlots; i++ {
		k := IX(int64(i))
		b := node.Read(Bin("bvadd", off, k))
		if b.w != 8 {
			in.unsupported("vfObserve of non-byte slice")
		}
		r = append(r, Ite(Cmp("bvslt", k, n), b, BV(8, 0)))
	}
	return r
}

// harness API
func (in *Interp) vf(fn *ssa.Function, args []Value) Value {
	str := func(i int) string { return strConst(args[i].(*StrV)) }
	in.res.Intrinsics[fn.Name()]++
	switch fn.Name() {
	case "vfInt":
		lo, hi := args[1].(*Term), args[2].(*Term)
		n := in.inputName(str(0))
		var v *Term
		if lo.IsConst() && hi.IsConst() {
			v = IntVarR(n, lo.c, hi.c)
		} else {
			v = IntVar(n)
		}
		in.inputs = append(in.inputs, &Input{Name: n, T: v, Kind: "int"})
		in.assumeFeasible(And(ICmp("<=", lo, v), ICmp("<=", v, hi)))
		return v
	case "vfPick":
		// small enumeration: fork over the concrete values, return a constant
		lo, ok1 := constInt(args[1].(*Term))
		hi, ok2 := constInt(args[2].(*Term))
		if !ok1 || !ok2 || hi < lo || hi-lo > 64 {
			in.unsupported("vfPick needs a small constant range")
		}
		n := in.inputName(str(0))
		v := IntVarR(n, big.NewInt(int64(lo)), big.NewInt(int64(hi)))
		in.inputs = append(in.inputs, &Input{Name: n, T: v, Kind: "int"})
		conds := make([]*Term, hi-lo+1)
		for i := range conds {
			conds[i] = Eq(v, IX(int64(lo+i)))
		}
		return IX(int64(lo + in.choose(conds)))
	case "vfU8":
		return in.newInput(str(0), 8, "int")
	case "vfU16":
		return in.newInput(str(0), 16, "int")
	case "vfU32":
		return in.newInput(str(0), 32, "int")
	case "vfU64":
		return in.newInput(str(0), 64, "int")
	case "vfI8":
		return in.newInput(str(0), 8, "int")
	case "vfI16":
		return in.newInput(str(0), 16, "int")
	case "vfI32":
		return in.newInput(str(0), 32, "int")
	case "vfI64":
		return in.newInput(str(0), 64, "int")
	case "vfBool":
		return Eq(in.newInput(str(0), 8, "bool"), BV(8, 1))
	case "vfBytes", "vfString":
		n := args[1].(*Term)
		name := in.inputName(str(0))
		arr := in.baseArr(name, 8)
		in.inputs = append(in.inputs, &Input{Name: name, Arr: arr, Len: n, Kind: "bytes"})
		if fn.Name() == "vfString" {
			return &StrV{node: arr, off: IX(0), len: n}
		}
		return &SliceV{obj: &ArrObj{node: arr, ew: 8}, off: IX(0), len: n, cap: n}
	case "vfAssume":
		in.assumeFeasible(args[0].(*Term))
		return nil
	case "vfAssert":
		in.assertHolds(args[0].(*Term), str(1))
		return nil
	case "vfReach":
		in.res.Reach[str(0)]++
		return nil
	case "vfKnown":
		c := args[1].(*Term)
		if in.branch(c) {
			in.knownTag = str(0)
		}
		return nil
	case "vfObserve":
		in.observed = append(in.observed, obsItem{str(0), args[1]})
		return nil
	case "vfThorough":
		return Bool(in.thorough)
	case "vfNative":
		return Bool(false)
	case "vfBound":
		n, _ := constInt(args[1].(*Term))
		in.res.Bounds[str(0)] = n
		return nil
	case "vfLoopBound":
		n, _ := constInt(args[0].(*Term))
		in.loopBound = n
		in.res.Bounds["loop-unwinding"] = n
		return nil
	case "vfExpectPanic":
		in.expectPanic = true
		return nil
	case "vfUnwindIsViolation":
		in.unwindViolation = true
		return nil
	case "vfConcurrent":
		n, _ := constInt(args[0].(*Term))
		in.concurrent = true
		in.preemptMax = n
		in.res.Bounds["preemptions"] = n
		return nil
	case "vfSettle":
		in.settle()
		return nil
	case "vfAllocBytes":
		s := IX(0)
		for _, a := range in.allocs {
			s = IArith("+", s, a)
		}
		return s
	case "vfRepeat":
		return IX(1)
	case "vfIsErrorf":
		// reports whether err was built by fmt.Errorf with the given constant format
		iv, _ := args[0].(*IfaceV)
		if iv == nil {
			return Bool(false)
		}
		if p, ok := iv.val.(*PtrV); ok && p.cell != nil {
			if eo, ok := p.cell.v.(*ErrObj); ok {
				return Bool(eo.format == str(1))
			}
		}
		return Bool(false)
	}
	in.unsupported("vf function %s", fn.Name())
	return nil
}

func (in *Interp) assumeFeasible(c *Term) {
	if c.IsTrue() {
		return
	}
	if in.replaying() {
		in.assume(c)
		return
	}
	if c.IsFalse() || in.sol.Check(in.pc, c) == "unsat" {
		in.end("infeasible", "assume")
	}
	in.assume(c)
}

func isVF(fn *ssa.Function) bool {
	return strings.HasPrefix(fn.Name(), "vf") && fn.Signature.Recv() == nil && fn.Parent() == nil
}

var _ = types.Typ
