#!/bin/bash
# usage: tools_runall.sh quick|thorough  -> runs every registered check, prints one line each
tier=${1:-quick}
cd /verif
for p in $(python3 -c "import json;print(' '.join(c['property_id'] for c in json.load(open('MANIFEST.json'))['checks']))"); do
  s=$(date +%s)
  timeout 5400 ./check $p $tier > /tmp/runall_$p.$tier.out 2>&1; rc=$?
  e=$(( $(date +%s) - s ))
  echo "$p exit=$rc ${e}s $(grep -c '^VIOLATION' /tmp/runall_$p.$tier.out) viol $(grep -c '^KNOWN-FINDING' /tmp/runall_$p.$tier.out) known $(grep -m1 INCONCLUSIVE /tmp/runall_$p.$tier.out | cut -c1-150)"
done
