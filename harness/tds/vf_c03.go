package tds

import (
	"errors"
	"fmt"
	"io"
)

// C03: each response is delimited by exactly one final DONE and fully drained.
//
// Inductive step over rounds: the state a previous round can leave behind
// (queues empty, lastPkgRx arbitrary) is built directly; one response drawn
// from the grammar item* lastDONE? is delivered in one or two packets; the
// consumer reads up to the DONE with status exactly FINAL; a marker response
// follows to show that nothing is carried over. HarnessC03_History runs three
// rounds from a fresh channel (reachability witness for the inter-round state).

type c03Item struct {
	kind   int // 0 RETURNSTATUS 1 DONE(MORE|bits) 2 EED non-info 3 EED info 4 ENVCHANGE
	status uint16
	value  uint32
}

// c03Response builds a response and the list of packages the consumer must see
// (kind, status/value) before the final DONE.
func c03Response(r *hResp, maxItems int) (want []c03Item, serverFinal bool) {
	n := vfPick("items", 0, maxItems)
	for i := 0; i < n; i++ {
		it := c03Item{kind: vfPick("kind", 0, 4)}
		switch it.kind {
		case 0:
			it.value = vfU32("retval")
			r.retstat(it.value)
			want = append(want, it)
		case 1:
			it.status = vfU16("morestatus") | uint16(TDS_DONE_MORE)
			r.done(TDS_DONE, it.status, 0, 0)
			want = append(want, it)
		case 2:
			r.eed(0, vfU32("msgnr"), "m", "s")
			want = append(want, it) // delivered (collected by NextPackageUntil)
		case 3:
			r.eed(byte(TDS_EED_INFO), 1, "i", "s")
		default:
			r.envchange()
		}
	}
	hasLast := vfBool("hasLastDone")
	// (a response has at least one byte; a header-only packet is not a response, see C02)
	vfAssume(hasLast || len(r.b) > 0)
	if hasLast {
		st := vfU16("laststatus")
		vfAssume(st&uint16(TDS_DONE_MORE) == 0)
		r.done(TDS_DONE, st, 0, 0)
		if st == uint16(TDS_DONE_FINAL) {
			serverFinal = true
		} else {
			want = append(want, c03Item{kind: 1, status: st})
		}
	}
	return
}

func c03State(ch *Channel) {
	switch vfPick("lastPkgRx", 0, 2) {
	case 0:
	case 1:
		// a DONE with status FINAL never survives the end of its response
		// (WritePacket forgets it at EOM; witnessed by HarnessC03_History)
		st := vfU16("prevstatus")
		vfAssume(st != uint16(TDS_DONE_FINAL))
		ch.lastPkgRx = &DonePackage{Status: DoneState(st)}
	default:
		ch.lastPkgRx = &ReturnStatusPackage{}
	}
}

func c03Matches(pkg Package, it c03Item) bool {
	switch p := pkg.(type) {
	case *ReturnStatusPackage:
		return it.kind == 0 && uint32(p.ReturnValue) == it.value
	case *DonePackage:
		return it.kind == 1 && uint16(p.Status) == it.status
	case *EEDPackage:
		return it.kind == 2
	}
	return false
}

// cut positions: all of 0..12 in thorough, a sample of them in quick
func c03Cut() int {
	if vfThorough() {
		return vfPick("cut", 0, 12)
	}
	return []int{0, 1, 4, 10}[vfPick("cutsel", 0, 3)]
}

func c03MaxItems() int {
	if vfThorough() {
		return 3
	}
	return 2
}

// the consumer reads with NextPackage up to the final DONE
func HarnessC03_Round() {
	vfBound("items", c03MaxItems())
	vfLoopBound(60)
	tds, _ := hNewConn(512)
	ch := hNewChannel(tds, 0)
	c03State(ch)
	r := &hResp{}
	want, _ := c03Response(r, c03MaxItems())
	hDeliver(ch, r.b, c03Cut())
	ctx := vfNewCtx("consumer")
	for i := 0; ; i++ {
		pkg, err := ch.NextPackage(ctx, true)
		vfAssert(err == nil, "no error while reading the response")
		if ok, _ := isDoneFinal(pkg); ok {
			vfAssert(i == len(want), "final DONE after exactly the response's packages")
			break
		}
		vfAssert(i < len(want), "no package beyond the response before the final DONE")
		if i < len(want) {
			vfAssert(c03Matches(pkg, want[i]), "packages in order with the values sent")
		}
	}
	vfAssert(len(ch.packageCh) == 0 && len(ch.errCh) == 0, "nothing left after the final DONE")
	vfObserve("delivered", len(want))
	// next round: a marker response; its first package must be the marker
	m := &hResp{}
	m.retstat(0xC0FFEE)
	m.done(TDS_DONE, 0, 0, 0)
	hDeliver(ch, m.b, []int{0, 5}[vfPick("cut2", 0, 1)])
	pkg, err := ch.NextPackage(ctx, true)
	vfAssert(err == nil, "next round: no error")
	rs, ok := pkg.(*ReturnStatusPackage)
	vfAssert(ok && uint32(rs.ReturnValue) == 0xC0FFEE, "first package of the next round belongs to the next response")
	pkg, _ = ch.NextPackage(ctx, true)
	fin, _ := isDoneFinal(pkg)
	vfAssert(fin && len(ch.packageCh) == 0, "next round ends with exactly one final DONE")
	vfReach("end")
}

var errC03Callback = errors.New("harness: callback failed")
var errC03WrapsEOF = fmt.Errorf("harness: callback failed: %w", io.EOF)

// NextPackageUntil with a callback that fails at a symbolic point: the rest of
// the response is consumed as well.
func HarnessC03_CallbackError() {
	vfBound("items", 2)
	vfLoopBound(60)
	tds, _ := hNewConn(512)
	ch := hNewChannel(tds, 0)
	c03State(ch)
	r := &hResp{}
	want, _ := c03Response(r, 2)
	hDeliver(ch, r.b, c03Cut())
	failAt := vfPick("failAt", 0, 2)
	errKind := vfPick("errKind", 0, 2) // 0: plain error, 1: unwrapped io.EOF, 2: an error wrapping io.EOF
	useEOF := errKind == 1
	cbErr := errC03Callback
	if errKind == 2 {
		cbErr = errC03WrapsEOF
	}
	seen := 0
	ctx := vfNewCtx("consumer")
	_, err := ch.NextPackageUntil(ctx, true, func(pkg Package) (bool, error) {
		if seen == failAt {
			seen++
			if useEOF {
				return false, errIOEOF()
			}
			return false, cbErr
		}
		seen++
		return isDoneFinal(pkg)
	})
	_ = want
	if seen > failAt && !useEOF {
		vfAssert(err != nil && errors.Is(err, cbErr), "callback error is returned (wrapped)")
		vfAssert(len(ch.packageCh) == 0, "rest of the response consumed after a callback error")
		// next round starts clean
		m := &hResp{}
		m.retstat(0xC0FFEE)
		m.done(TDS_DONE, 0, 0, 0)
		hDeliver(ch, m.b, []int{0, 5}[vfPick("cut2", 0, 1)])
		pkg, e2 := ch.NextPackage(ctx, true)
		rs, ok := pkg.(*ReturnStatusPackage)
		vfAssert(e2 == nil && ok && uint32(rs.ReturnValue) == 0xC0FFEE, "after a callback error the next read belongs to the next response")
	}
	vfReach("end")
}

// nil callback: the whole response is consumed and io.EOF returned
func HarnessC03_NilCallback() {
	vfLoopBound(60)
	tds, _ := hNewConn(512)
	ch := hNewChannel(tds, 0)
	c03State(ch)
	r := &hResp{}
	c03Response(r, c03MaxItems())
	hDeliver(ch, r.b, c03Cut())
	_, err := ch.NextPackageUntil(vfNewCtx("consumer"), true, nil)
	vfAssert(err == nil || errors.Is(err, errIOEOF()), "nil callback: no error other than io.EOF (possibly wrapped with the messages)")
	vfAssert(len(ch.packageCh) == 0, "nil callback: response fully consumed")
	vfReach("end")
}

// three rounds from a fresh channel (reachability witness for c03State)
func HarnessC03_History() {
	vfLoopBound(60)
	tds, _ := hNewConn(512)
	ch := hNewChannel(tds, 0)
	ctx := vfNewCtx("consumer")
	rounds := 2
	if vfThorough() {
		rounds = 3
	}
	for round := 0; round < rounds; round++ {
		r := &hResp{}
		want, _ := c03Response(r, 1)
		cut := 0
		if round > 0 {
			cut = []int{0, 5}[vfPick("cut", 0, 1)]
		}
		hDeliver(ch, r.b, cut)
		for i := 0; ; i++ {
			pkg, err := ch.NextPackage(ctx, true)
			vfAssert(err == nil, "history: no error")
			if ok, _ := isDoneFinal(pkg); ok {
				vfAssert(i == len(want), "history: final DONE after exactly the response's packages")
				break
			}
			vfAssert(i < len(want), "history: no extra package")
		}
		vfAssert(len(ch.packageCh) == 0, "history: drained")
	}
	vfReach("end")
}
