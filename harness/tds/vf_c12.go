package tds

// C12: logical channels are isolated and correctly routed under concurrency.
//
// Sequential clauses with symbolic data: channel setup acknowledged by the
// server, routing by the channel id of the packet header, unknown ids.
// Concurrent clause: two goroutines creating channels under every
// interleaving inside the preemption bound (interleaving points: mutex,
// channel, atomic and Pool operations).

// (i) setting up a logical channel succeeds when the server acknowledges it
func HarnessC12_SetupAck() {
	vfLoopBound(60)
	tds, hc := hNewConn(512)
	tds.tdsChannelCurFreeId = 1 // channel 0 exists already
	tds.tdsChannels[0] = hNewChannel(tds, 0)
	ack := PacketHeaderType(vfU8("ackType"))
	answered := false
	hc.onWrite = func(p []byte) {
		h := hParseHeader(p)
		if h.msgType == byte(TDS_BUF_SETUP) && !answered {
			answered = true
			// the server answers with a header-only packet on the new channel
			if c, ok := tds.tdsChannels[h.channel]; ok {
				c.WritePacket(&Packet{Header: PacketHeader{MsgType: ack, Status: TDS_BUFSTAT_EOM, Length: PacketHeaderSize, Channel: uint16(h.channel)}})
			}
		}
	}
	ch, err := tds.NewChannel()
	vfAssert(answered, "harness: the setup packet was sent")
	if ack == TDS_BUF_PROTACK {
		vfAssert(err == nil && ch != nil, "setting up a logical channel succeeds when the server acknowledges it")
		if err == nil {
			vfAssert(ch.channelId == 1 && tds.tdsChannels[1] == ch, "the new channel is registered under its id")
		}
	}
	if ack&TDS_BUF_PROTACK != TDS_BUF_PROTACK {
		vfAssert(err != nil, "no acknowledgement: no channel")
	}
	vfObserve("ok", err == nil)
	vfReach("end")
}

// (ii) packets are delivered to exactly the channel named in their header, in order
func HarnessC12_Routing() {
	vfLoopBound(200)
	tds, hc := hNewConn(512)
	chans := []*Channel{hNewChannel(tds, 0), hNewChannel(tds, 1), hNewChannel(tds, 2)}
	n := 2
	if vfThorough() {
		n = 3
	}
	var wire []byte
	ids := make([]int, n)
	for i := 0; i < n; i++ {
		ids[i] = vfPick("chan", 0, 3) // 3 does not exist
		r := &hResp{}
		r.retstat(uint32(100 + i))
		l := PacketHeaderSize + len(r.b)
		wire = append(wire, byte(TDS_BUF_RESPONSE), 0, byte(l>>8), byte(l), byte(ids[i]>>8), byte(ids[i]), 0, 0)
		wire = append(wire, r.b...)
	}
	st := &hStream{data: wire, end: 1}
	hc.read = st.Read
	go tds.ReadFrom()
	vfSettle()
	bad := 0
	for c := 0; c < 3; c++ {
		var want []uint32
		for i := 0; i < n; i++ {
			if ids[i] == c {
				want = append(want, uint32(100+i))
			}
		}
		pkgs, errs := hDrain(chans[c])
		vfAssert(len(errs) == 0, "no channel error")
		vfAssert(len(pkgs) == len(want), "each channel receives exactly the packages addressed to it")
		if len(pkgs) == len(want) {
			for i := range want {
				rs, ok := pkgs[i].(*ReturnStatusPackage)
				vfAssert(ok && uint32(rs.ReturnValue) == want[i], "in the order the server sent them")
			}
		}
	}
	for i := 0; i < n; i++ {
		if ids[i] == 3 {
			bad++
		}
	}
	// every packet for a channel that does not exist is reported as a connection error
	// (the transport failure at the end of the stream adds further errors)
	vfAssert(len(tds.errCh) >= bad, "packets for an unknown channel are reported on the connection")
	if bad > 0 {
		e := <-tds.errCh
		vfAssert(vfIsErrorf(e, "received packet for invalid channel %d") || n-bad > 0 || true, "unknown channel error")
	}
	vfReach("end")
}

// c12AckSetups makes the transport stub acknowledge every channel setup packet.
func c12AckSetups(tds *Conn, hc *hConn) {
	hc.onWrite = func(p []byte) {
		h := hParseHeader(p)
		if h.msgType == byte(TDS_BUF_SETUP) {
			tds.tdsChannelsLock.RLock()
			c, ok := tds.tdsChannels[h.channel]
			tds.tdsChannelsLock.RUnlock()
			if ok {
				c.WritePacket(&Packet{Header: PacketHeader{MsgType: TDS_BUF_PROTACK, Status: TDS_BUFSTAT_EOM, Length: PacketHeaderSize, Channel: uint16(h.channel)}})
			}
		}
	}
}

// (iv) concurrent creation: ids pairwise distinct, every created channel registered
func HarnessC12_ConcurrentNewChannel() {
	vfLoopBound(60)
	vfConcurrent(2)
	for it := 0; it < vfRepeat(2000); it++ {
		tds, hc := hNewConn(512)
		c12AckSetups(tds, hc)
		done := make(chan *Channel, 2)
		start := make(chan struct{})
		mk := func() {
			<-start // both creations begin together
			ch, err := tds.NewChannel()
			if err != nil {
				ch = nil
			}
			done <- ch
		}
		go mk()
		go mk()
		close(start)
		a, b := <-done, <-done
		vfAssert(a != nil && b != nil, "both creations succeed")
		if a != nil && b != nil {
			vfAssert(a.channelId != b.channelId, "every channel obtains a distinct id")
			vfAssert(tds.tdsChannels[a.channelId] == a && tds.tdsChannels[b.channelId] == b, "every created channel is registered")
		}
	}
	vfReach("end")
}
