package tds

// C06: package encodings are self-consistent and match their wire layout.
//
// (i) writer+reader types: a package with symbolic fields is written into a
// packet queue, the first byte is dispatched through LookupPackage, a fresh
// package reads the bytes back; it must be deep-equal to the original and
// consume exactly the bytes written.
// (ii) server-only types: the harness's reference encoders (vf_resp.go) feed
// the library readers (done as part of C03/C11; EED/ENVCHANGE/DONE below).
// (iii) client-only types and the login record: see vf_c06_login.go.

func c06Str(name string, max int) string {
	return vfString(name, vfPick(name+"len", 0, max))
}

func c06L() int {
	if vfThorough() {
		return 3
	}
	return 2
}

// c06RoundTrip writes pkg, reads it back into `fresh` (nil: via LookupPackage)
// and compares.
func c06RoundTrip(pkg Package, tok Token, fresh Package, last Package) {
	vfLoopBound(400)
	vfSeqCap(16)
	q := NewPacketQueue(func() int { return 512 })
	if acc, ok := pkg.(LastPkgAcceptor); ok {
		vfAssert(acc.LastPkg(last) == nil, "harness: LastPkg accepted (writer)")
	}
	err := pkg.WriteTo(q)
	vfAssert(err == nil, "WriteTo succeeds")
	written := c15Cursor(q)
	q.SetPosition(0, 0)
	b, err := q.Byte()
	vfAssert(err == nil && b == byte(tok), "the encoding starts with the package's token")
	if fresh == nil {
		fresh, err = LookupPackage(tok)
		vfAssert(err == nil, "LookupPackage knows the token")
	}
	if acc, ok := fresh.(LastPkgAcceptor); ok {
		vfAssert(acc.LastPkg(last) == nil, "harness: LastPkg accepted (reader)")
	}
	err = fresh.ReadFrom(q)
	vfAssert(err == nil, "reading back what was written succeeds")
	vfAssert(c15Cursor(q) == written, "reading consumes exactly the bytes written")
	vfAssertDeepEqual(pkg, fresh, "reading back reproduces the package's fields")
	vfObserve("written", written)
	vfReach("end")
}

func HarnessC06_Done() {
	tok := []Token{TDS_DONE, TDS_DONEPROC, TDS_DONEINPROC}[vfPick("tok", 0, 2)]
	p := &DonePackage{Status: DoneState(vfU16("status")), TranState: TransState(vfU16("tran")), Count: vfI32("count")}
	// DONE, DONEPROC and DONEINPROC share one type whose writer emits the DONE token
	vfAssume(tok == TDS_DONE)
	c06RoundTrip(p, tok, nil, nil)
}

func HarnessC06_EED() {
	L := c06L()
	p := &EEDPackage{MsgNumber: vfU32("msgnr"), State: vfU8("state"), Class: vfU8("class"), SQLState: []byte(c06Str("sqlstate", L)),
		Status: EEDStatus(vfU8("status")), TranState: vfU16("tran"), Msg: c06Str("msg", L), ServerName: c06Str("server", L), ProcName: c06Str("proc", L), LineNr: vfU16("line")}
	// (the reader strips one trailing newline from the message)
	vfAssume(len(p.Msg) == 0 || p.Msg[len(p.Msg)-1] != '\n')
	c06RoundTrip(p, TDS_EED, nil, nil)
}

func HarnessC06_Error() {
	L := c06L()
	p := &ErrorPackage{ErrorNumber: vfI32("nr"), State: vfU8("state"), Class: vfU8("class"), ErrorMsg: c06Str("msg", L), ServerName: c06Str("server", L), ProcName: c06Str("proc", L), LineNr: vfU16("line")}
	c06RoundTrip(p, TDS_ERROR, nil, nil)
}

func HarnessC06_EnvChange() {
	L := c06L()
	p := &EnvChangePackage{}
	n := vfPick("members", 0, 2)
	for i := 0; i < n; i++ {
		p.members = append(p.members, EnvChangePackageField{Type: EnvChangeType(vfU8("type")), NewValue: c06Str("new", L), OldValue: c06Str("old", L)})
	}
	c06RoundTrip(p, TDS_ENVCHANGE, nil, nil)
}

func HarnessC06_Language() {
	p := &LanguagePackage{Status: LanguageStatus(vfU8("status")), Cmd: c06Str("cmd", 4)}
	c06RoundTrip(p, TDS_LANGUAGE, nil, nil)
}

func HarnessC06_Dynamic() {
	wide := vfBool("wide")
	p := &DynamicPackage{Type: DynamicOperationType(vfU8("type")), Status: DynamicStatusType(vfU8("status")), ID: c06Str("id", c06L()), wide: wide}
	vfAssume(p.Type != TDS_DYN_INVALID) // the writer rejects the invalid type
	if p.Type&TDS_DYN_PREPARE == TDS_DYN_PREPARE || p.Type&TDS_DYN_EXEC_IMMED == TDS_DYN_EXEC_IMMED {
		p.Stmt = c06Str("stmt", c06L())
	}
	tok := TDS_DYNAMIC
	if wide {
		tok = TDS_DYNAMIC2
	}
	c06RoundTrip(p, tok, nil, nil)
}

func HarnessC06_LoginAck() {
	name := c06Str("name", c06L())
	p := &LoginAckPackage{Status: LoginAckStatus(vfU8("status")),
		Version:        &Version{vfU8("v0"), vfU8("v1"), vfU8("v2"), vfU8("v3")},
		NameLength:     uint8(len(name)),
		ProgramName:    name,
		ProgramVersion: &Version{vfU8("p0"), vfU8("p1"), vfU8("p2"), vfU8("p3")}}
	p.Length = uint16(10 + len(name))
	c06RoundTrip(p, TDS_LOGINACK, nil, nil)
}

func HarnessC06_Logout() {
	// the only logout option the library handles is 0
	opt := vfU8("options")
	p := &LogoutPackage{Options: opt}
	if opt != 0 {
		q := NewPacketQueue(func() int { return 512 })
		vfAssert(p.WriteTo(q) == nil, "WriteTo succeeds")
		q.SetPosition(0, 1)
		vfAssert((&LogoutPackage{}).ReadFrom(q) != nil, "an unhandled logout option is rejected, not ignored")
		vfReach("end")
		return
	}
	c06RoundTrip(p, TDS_LOGOUT, nil, nil)
}

func HarnessC06_Msg() {
	c06RoundTrip(&MsgPackage{Status: TDSMsgStatus(vfU8("status")), MsgId: TDSMsgId(vfU16("id"))}, TDS_MSG, nil, nil)
}

func HarnessC06_ReturnStatus() {
	c06RoundTrip(&ReturnStatusPackage{ReturnValue: vfI32("value")}, TDS_RETURNSTATUS, nil, nil)
}

// capability value masks: capability n is bit n%8 of byte len-1-n/8; written and
// parsed back, every capability keeps its state (the slice lengths may differ:
// the parser allocates len*8+1 entries)
func HarnessC06_ValueMask() {
	vfLoopBound(400)
	max := []int{0, 3, 7, 8, 12}[vfPick("max", 0, 4)]
	vm := newValueMask(max)
	for i := range vm.capabilities {
		vm.capabilities[i] = vfBool("cap")
	}
	bs := vm.Bytes()
	vfAssert(len(bs) == (max+1+7)/8, "one bit per capability, rounded up to whole bytes")
	c := vfPick("capability", 0, 12)
	if c <= max {
		bit := bs[len(bs)-1-c/8]&(1<<uint(c%8)) != 0
		vfAssert(bit == vm.getCapability(c), "capability n is bit n%8 of byte len-1-n/8")
		back := parseValueMask(bs)
		vfAssert(back.getCapability(c) == vm.getCapability(c), "every capability keeps its state")
	}
	vfObserve("len", len(bs))
	vfReach("end")
}

// the capability package frames its value masks: token, length, then per type
// the type byte, the mask length and the mask
func HarnessC06_Capability() {
	vfLoopBound(400)
	p, err := NewCapabilityPackage([]RequestCapability{TDS_REQ_LANG, TDS_DATA_INT1, TDS_REQ_COMMAND_ENCRYPTION}, []ResponseCapability{TDS_RES_NO_TDSCONTROL}, nil)
	vfAssert(err == nil, "harness: capability package")
	q := NewPacketQueue(func() int { return 512 })
	vfAssert(p.WriteTo(q) == nil, "WriteTo succeeds")
	written := c15Cursor(q)
	raw := q.queue[0].Data
	total := int(raw[1]) | int(raw[2])<<8
	vfAssert(raw[0] == byte(TDS_CAPABILITY) && total == written-3, "the length field equals the number of bytes that follow")
	q.SetPosition(0, 1)
	fresh, err := LookupPackage(TDS_CAPABILITY)
	vfAssert(err == nil, "LookupPackage knows the token")
	vfAssert(fresh.ReadFrom(q) == nil, "reading back what was written succeeds")
	vfAssert(c15Cursor(q) == written, "reading consumes exactly the bytes written")
	fp := fresh.(*CapabilityPackage)
	for _, c := range []RequestCapability{TDS_REQ_LANG, TDS_DATA_INT1, TDS_REQ_COMMAND_ENCRYPTION, TDS_REQ_PARAM, TDS_DATA_BIT} {
		vfAssert(fp.HasRequestCapability(c) == p.HasRequestCapability(c), "request capabilities recovered")
	}
	vfAssert(fp.HasResponseCapability(TDS_RES_NO_TDSCONTROL) && !fp.HasResponseCapability(TDS_RES_NOEED), "response capabilities recovered")
	vfObserve("written", written)
	vfReach("end")
}

func c06Cursor() (int32, string) {
	// a cursor is addressed by id, or by name when the id is 0
	id := vfI32("cursorid")
	name := ""
	if id == 0 {
		name = c06Str("cursorname", c06L())
	}
	return id, name
}

func HarnessC06_CurDeclare() {
	wide := vfBool("wide")
	p := &CurDeclarePackage{Name: c06Str("name", c06L()), Options: CursorOption(vfU8("options")), Status: CursorDStatus(vfU8("status")), Stmt: c06Str("stmt", c06L()), wide: wide}
	n := vfPick("columns", 0, 2)
	for i := 0; i < n; i++ {
		p.columns = append(p.columns, c06Str("col", 2))
	}
	tok := TDS_CURDECLARE
	if wide {
		tok = TDS_CURDECLARE3
	}
	c06RoundTrip(p, tok, nil, nil)
}

func HarnessC06_CurInfo() {
	wide := vfBool("wide")
	id, name := c06Cursor()
	p := &CurInfoPackage{CursorID: id, Name: name, Command: CursorCommand(vfU8("command")), Status: CursorIStatus(vfU16("status")), wide: wide}
	if wide {
		p.Status = CursorIStatus(vfU32("status32"))
		p.RowNum, p.TotalRows = vfI32("rownum"), vfI32("total")
	}
	if p.Status&TDS_CUR_ISTAT_ROWCNT == TDS_CUR_ISTAT_ROWCNT {
		p.RowCount = vfI32("rowcount")
	}
	tok := TDS_CURINFO
	if wide {
		tok = TDS_CURINFO3
	}
	c06RoundTrip(p, tok, nil, nil)
}

func HarnessC06_CurOpen() {
	id, name := c06Cursor()
	c06RoundTrip(&CurOpenPackage{CursorID: id, Name: name, Status: CursorOStatus(vfU8("status"))}, TDS_CUROPEN, nil, nil)
}

func HarnessC06_CurFetch() {
	id, name := c06Cursor()
	p := &CurFetchPackage{CursorID: id, Name: name, Type: CursorFetchType(vfU8("type"))}
	if p.Type == TDS_CUR_ABS || p.Type == TDS_CUR_REL {
		p.RowNumber = vfI32("row")
	}
	c06RoundTrip(p, TDS_CURFETCH, nil, nil)
}

func HarnessC06_CurUpdate() {
	id, name := c06Cursor()
	c06RoundTrip(&CurUpdatePackage{CursorID: id, Name: name, Status: CursorOStatus(vfU8("status")), TableName: c06Str("table", c06L()), Stmt: c06Str("stmt", c06L())}, TDS_CURUPDATE, nil, nil)
}

func HarnessC06_CurDelete() {
	id, name := c06Cursor()
	c06RoundTrip(&CurDeletePackage{CursorID: id, Name: name, Status: CursorDeleteStatus(vfU8("status")), TableName: c06Str("table", c06L())}, TDS_CURDELETE, nil, nil)
}

func HarnessC06_CurClose() {
	id, name := c06Cursor()
	c06RoundTrip(&CurClosePackage{CursorID: id, Name: name, Options: CursorCloseOption(vfU8("options"))}, TDS_CURCLOSE, &CurClosePackage{}, nil)
}

func HarnessC06_OptionCmd() {
	p := &OptionCmdPackage{Cmd: OptionCmd(vfU8("cmd")), Option: OptionCmdOption(vfU8("option")), OptionArg: []byte(c06Str("arg", c06L()))}
	c06RoundTrip(p, TDS_OPTIONCMD, &OptionCmdPackage{}, nil)
}

// parameter formats over all data types (relative formulation): every package
// the reader accepts from N arbitrary bytes is written out again; the written
// bytes must parse to a deep-equal package, be consumed completely, and their
// length field must equal the number of bytes that follow it.
func c06Reparse(tok Token, N int, lenBytes int) {
	vfLoopBound(200)
	vfSeqCap(N)
	vfBound("encoding-bytes", N)
	buf := vfBytes("buf", N)
	qa := NewPacketQueue(func() int { return 512 })
	qa.AddPacket(&Packet{Data: buf})
	vfIgnorePanics(true)
	pa, errA := c07Parse(tok, qa, nil)
	vfIgnorePanics(false)
	vfAssume(errA == nil)
	qb := NewPacketQueue(func() int { return 512 })
	vfAssert(pa.WriteTo(qb) == nil, "a package the reader accepted can be written")
	written := c15Cursor(qb)
	raw := qb.queue[0].Data
	vfAssert(raw[0] == byte(tok), "the encoding starts with the package's token")
	declared := 0
	for i := 0; i < lenBytes; i++ {
		declared |= int(raw[1+i]) << (8 * uint(i))
	}
	vfAssert(declared == written-1-lenBytes, "the length field equals the number of bytes that follow")
	qb.SetPosition(0, 1)
	pb, errB := c07Parse(tok, qb, nil)
	vfAssert(errB == nil, "reading back what was written succeeds")
	vfAssert(c15Cursor(qb) == written, "reading consumes exactly the bytes written")
	vfAssertDeepEqual(pa, pb, "reading back reproduces the package's fields")
	vfObserve("written", written)
	vfReach("end")
}

func HarnessC06_ParamFmt()  { c06Reparse(TDS_PARAMFMT, c07N(13, 15), 2) }
func HarnessC06_ParamFmt2() { c06Reparse(TDS_PARAMFMT2, c07N(18, 20), 4) }

// server-only: row formats from an independent encoder (TDS_ROWFMT has a
// 2-byte length and 1-byte column status, TDS_ROWFMT2 a 4-byte length, 4-byte
// status and four leading names per column)
func HarnessC06_RowFmt() {
	vfLoopBound(200)
	wide := vfBool("wide")
	name := c06Str("name", 2)
	maxLen := vfU8("maxlen")
	status := vfU8("status")
	utype := vfU32("usertype")
	var cols hResp
	col := func(tok byte, withLen bool) {
		if wide {
			cols.u8(1)
			cols.str("L")
			cols.u8(0)
			cols.u8(0)
			cols.u8(1)
			cols.str("T")
		}
		cols.u8(byte(len(name)))
		cols.str(name)
		if wide {
			cols.u32(uint32(status))
		} else {
			cols.u8(status)
		}
		cols.u32(utype)
		cols.u8(tok)
		if withLen {
			cols.u8(maxLen)
		}
		cols.u8(0) // locale
	}
	col(0x38, false) // INT4
	col(0x27, true)  // VARCHAR
	r := &hResp{}
	if wide {
		r.u8(byte(TDS_ROWFMT2))
		r.u32(uint32(2 + len(cols.b)))
	} else {
		r.u8(byte(TDS_ROWFMT))
		r.u16(uint16(2 + len(cols.b)))
	}
	r.u16(2)
	r.str(string(cols.b))
	q := NewPacketQueue(func() int { return 512 })
	q.AddPacket(&Packet{Data: r.b})
	tok, _ := q.Byte()
	pkg, err := c07Parse(Token(tok), q, nil)
	vfAssert(err == nil, "a conforming row format parses")
	if err == nil {
		vfAssert(c15Cursor(q) == len(r.b), "the row format consumes exactly its bytes")
		rf := pkg.(*RowFmtPackage)
		vfAssert(len(rf.Fmts) == 2, "two columns")
		if len(rf.Fmts) == 2 {
			vfAssert(byte(rf.Fmts[0].DataType()) == 0x38 && byte(rf.Fmts[1].DataType()) == 0x27, "column data types as sent")
			vfAssert(rf.Fmts[0].Name() == name && rf.Fmts[1].Name() == name, "column names as sent")
			vfAssert(rf.Fmts[1].MaxLength() == int64(maxLen), "maximum length as sent")
			vfAssert(rf.Fmts[0].Status() == uint(status) && rf.Fmts[0].UserType() == int32(utype), "status and user type as sent")
			if wide {
				vfAssert(rf.Fmts[0].ColumnLabel() == "L" && rf.Fmts[0].Table() == "T" && rf.Fmts[0].Catalogue() == "", "wide names as sent")
			}
		}
	}
	vfReach("end")
}
