package tds

import (
	"context"
	"errors"
)

// C13: cancelled or closed channels never block and never deliver.

func c13Pkg() Package { return &rawPkg{data: []byte{1, 2, 3}} }

// after Close every call reports the closed condition and nothing is delivered
func HarnessC13_ClosedChannel() {
	vfLoopBound(80)
	tds, hc := hNewConn(512)
	ch := hNewChannel(tds, vfPick("id", 1, 2))
	// something may still be queued when the channel is closed
	if vfBool("queued") {
		ch.packageCh <- &DonePackage{}
	}
	ch.Close()
	vfAssert(ch.closed, "Close marks the channel closed")
	_, registered := tds.tdsChannels[ch.channelId]
	vfAssert(!registered, "a closed channel is unregistered")
	nw := len(hc.writes)
	ctx := vfNewCtx("user")
	switch vfPick("call", 0, 7) {
	case 0:
		pkg, err := ch.NextPackage(ctx, vfBool("wait"))
		vfAssert(pkg == nil && errors.Is(err, ErrChannelClosed), "NextPackage on a closed channel reports the closed condition")
	case 1:
		pkg, err := ch.NextPackageUntil(ctx, vfBool("wait"), nil)
		vfAssert(pkg == nil && errors.Is(err, ErrChannelClosed), "NextPackageUntil on a closed channel reports the closed condition")
	case 2:
		vfAssert(errors.Is(ch.QueuePackage(ctx, c13Pkg()), ErrChannelClosed), "QueuePackage on a closed channel reports the closed condition")
	case 3:
		vfAssert(errors.Is(ch.SendRemainingPackets(ctx), ErrChannelClosed), "SendRemainingPackets on a closed channel reports the closed condition")
	case 4:
		vfAssert(errors.Is(ch.SendPackage(ctx, c13Pkg()), ErrChannelClosed), "SendPackage on a closed channel reports the closed condition")
	case 5:
		ch.Reset()
	case 6:
		ch.WritePacket(&Packet{Header: PacketHeader{Length: 17, Status: TDS_BUFSTAT_EOM}, Data: []byte{0xFD, 0, 0, 0, 0, 0, 0, 0, 0}})
	default:
		vfAssert(errors.Is(ch.Close(), ErrChannelClosed), "closing twice reports the closed condition")
	}
	vfAssert(len(hc.writes) == nw, "a closed channel sends nothing")
	vfAssert(ch.packageCh == nil || len(ch.packageCh) == 0, "nothing further is delivered from a closed channel")
	vfObserve("writes", len(hc.writes))
	vfReach("end")
}

// a send with a cancelled context writes nothing
func HarnessC13_CancelledSend() {
	vfLoopBound(80)
	tds, hc := hNewConn(512)
	ch := hNewChannel(tds, vfPick("id", 0, 1))
	user, cancel := vfCtxWithCancel(vfNewCtx("user"))
	if vfBool("cancelConn") {
		tds.ctxCancel()
	} else {
		cancel()
	}
	m := vfInt("m", 1, 1200)
	err := ch.SendPackage(user, &rawPkg{data: vfBytes("msg", m)})
	vfAssert(err != nil, "send with a cancelled context fails")
	vfAssert(errors.Is(err, context.Canceled), "the error wraps the context's error")
	vfAssert(len(hc.writes) == 0, "a send with a cancelled context writes nothing")
	vfReach("end")
}

// a receive with a cancelled context returns an already queued package or an
// error wrapping the context's error, whatever the queue fill
func HarnessC13_CancelledReceive() {
	vfLoopBound(80)
	tds, _ := hNewConn(512)
	ch := hNewChannel(tds, 0)
	fill := vfPick("fill", 0, 3)
	for i := 0; i < fill; i++ {
		ch.packageCh <- &ReturnStatusPackage{ReturnValue: int32(i)}
	}
	user, cancel := vfCtxWithCancel(vfNewCtx("user"))
	connCancelled := vfBool("cancelConn")
	if connCancelled {
		tds.ctxCancel()
	} else {
		cancel()
	}
	pkg, err := ch.NextPackage(user, vfBool("wait"))
	if fill > 0 {
		rs, ok := pkg.(*ReturnStatusPackage)
		vfAssert(err == nil && ok && rs.ReturnValue == 0, "an already queued package is returned first")
	} else {
		vfAssert(pkg == nil && err != nil, "nothing queued: an error")
		vfAssert(errors.Is(err, context.Canceled) || errors.Is(err, ErrNoPackageReady), "the error wraps the context's error (or reports that nothing is ready when not waiting)")
	}
	vfReach("end")
}

// closing the connection closes all channels and the transport and cancels the context
func HarnessC13_ConnClose() {
	vfLoopBound(80)
	tds, hc := hNewConn(512)
	a, b := hNewChannel(tds, 1), hNewChannel(tds, 2)
	err := tds.Close()
	_ = err
	vfAssert(a.closed && b.closed, "Conn.Close closes every channel")
	vfAssert(hc.closed, "Conn.Close closes the transport")
	vfAssert(tds.ctx.Err() != nil, "Conn.Close cancels the connection context")
	vfAssert(len(tds.tdsChannels) == 0, "no channel stays registered")
	vfReach("end")
}

// Close returns although the reader is parked on a full package queue
func HarnessC13_CloseWithFullQueue() {
	vfLoopBound(120)
	tds, hc := hNewConn(512)
	tds.info.ChannelPackageQueueSize = 2
	ch := hNewChannel(tds, 1)
	// the peer sends more packages than the queue holds; nobody consumes them
	r := &hResp{}
	for i := 0; i < 4; i++ {
		r.retstat(uint32(i))
	}
	wire, _ := hPacketise(r.b, 0)
	wire[4], wire[5] = 0, 1 // channel 1
	st := &hStream{data: wire, end: 0}
	hc.read = st.Read
	go tds.ReadFrom()
	vfSettle() // the reader is now parked in WritePacket holding the channel's read lock
	vfAssert(len(ch.packageCh) == 2, "harness: the package queue is full")
	// Known finding F-C13-close-blocks-on-full-queue (this history)
	vfKnown("F-C13-close-blocks-on-full-queue", true)
	ch.Close()
	vfAssert(ch.closed, "Close returns in bounded time whatever the state of the receive queue")
	vfReach("end")
}

// the main channel is closed although the peer never answers the logout
func HarnessC13_CloseChannel0NoPeer() {
	vfLoopBound(120)
	tds, hc := hNewConn(512)
	ch := hNewChannel(tds, 0)
	err := ch.Close()
	vfAssert(err != nil, "a logout that is never answered is reported")
	vfAssert(ch.closed, "the channel is closed nevertheless (Logout's deadline is the bound)")
	_ = hc
	vfReach("end")
}

// Close while a consumer waits in NextPackage
func HarnessC13_CloseWithWaitingConsumer() {
	vfLoopBound(120)
	tds, _ := hNewConn(512)
	ch := hNewChannel(tds, 1)
	res := make(chan error, 1)
	go func() {
		_, err := ch.NextPackage(vfNewCtx("consumer"), true)
		res <- err
	}()
	vfSettle() // the consumer is parked in NextPackage's select, holding the read lock
	// Known finding F-C13-close-blocks-on-waiting-consumer (this history)
	vfKnown("F-C13-close-blocks-on-waiting-consumer", true)
	ch.Close()
	vfAssert(ch.closed, "Close returns while a consumer is waiting")
	vfReach("end")
}

// the teardown on the client side is guaranteed even if the transport fails
func HarnessC13_CloseWithFailingTransport() {
	vfLoopBound(120)
	tds, hc := hNewConn(512)
	a, b := hNewChannel(tds, 1), hNewChannel(tds, 2)
	hc.failAt = hc.nwrites + 1 // the next write (the teardown packet) fails
	viaConn := vfBool("viaConn")
	var err error
	if viaConn {
		err = tds.Close()
		vfAssert(a.closed && b.closed, "Conn.Close closes every channel although the transport fails")
		vfAssert(hc.closed, "Conn.Close closes the transport")
	} else {
		err = a.Close()
	}
	vfAssert(err != nil, "the failed teardown is reported")
	vfAssert(a.closed, "the channel is closed although its teardown could not be sent")
	_, registered := tds.tdsChannels[a.channelId]
	vfAssert(!registered, "the closed channel is unregistered")
	_, e2 := a.NextPackage(vfNewCtx("user"), false)
	vfAssert(errors.Is(e2, ErrChannelClosed), "calls on it report the closed condition")
	vfReach("end")
}

var errC13Callback = errors.New("harness: callback failed")

// draining after a failed callback honours the caller's context: with the rest
// of the response never arriving the call returns once the context is done
func HarnessC13_DrainHonoursContext() {
	vfLoopBound(120)
	tds, _ := hNewConn(512)
	ch := hNewChannel(tds, 0)
	ch.packageCh <- &ReturnStatusPackage{ReturnValue: 1}
	var ctx context.Context
	if vfBool("alreadyCancelled") {
		c, cancel := vfCtxWithCancel(vfNewCtx("user"))
		cancel()
		ctx = c
	} else {
		ctx = vfCtxDeadlineWhileWaiting()
	}
	_, err := ch.NextPackageUntil(ctx, true, func(Package) (bool, error) { return false, errC13Callback })
	vfAssert(err != nil, "the call returns with an error once its context is done")
	vfReach("end")
}
