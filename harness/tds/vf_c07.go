package tds

import (
	"errors"

	"github.com/SAP/go-dblib/asetypes"
)

// C07: incomplete package data is always reported as "not enough bytes".
//
// Relative formulation, one harness per token: buf is N arbitrary bytes
// (symbolic content). Run A parses the package from the complete buffer;
// whenever that succeeds, having consumed c bytes, buf[:c] is a valid encoding
// (all valid encodings of at most N bytes arise this way). For a symbolic cut
// t < c, run B parses buf[:t] and must report ErrNotEnoughBytes (never success,
// another error or a panic); after rollback and arrival of buf[t:] a fresh
// parse must give the same package and consume the same bytes as run A.

func c07N(quick, thorough int) int {
	if vfThorough() {
		return thorough
	}
	return quick
}

func c07Consumed(q *PacketQueue) int { return c15Cursor(q) }

func c07Parse(tok Token, q *PacketQueue, last Package) (Package, error) {
	pkg, err := LookupPackage(tok)
	if err != nil {
		return nil, err
	}
	if acceptor, ok := pkg.(LastPkgAcceptor); ok {
		if err := acceptor.LastPkg(last); err != nil {
			return nil, err
		}
	}
	return pkg, pkg.ReadFrom(q)
}

func c07Generic(tok Token, last Package, N int) {
	vfBound("encoding-bytes", N)
	vfLoopBound(80)
	vfSeqCap(N)
	buf := vfBytes("buf", N)
	qa := NewPacketQueue(func() int { return 512 })
	qa.AddPacket(&Packet{Data: buf})
	// run A defines validity; a crash on arbitrary bytes is C10's subject
	vfIgnorePanics(true)
	pa, errA := c07Parse(tok, qa, last)
	vfIgnorePanics(false)
	vfAssume(errA == nil)
	c := c07Consumed(qa)
	// the cut position is case-split by the executor (contents, lengths and
	// field values stay symbolic)
	t := vfPick("t", 0, N-1)
	vfAssume(t < c)

	qb := NewPacketQueue(func() int { return 512 })
	if t > 0 {
		qb.AddPacket(&Packet{Data: buf[:t]})
	}
	_, errB := c07Parse(tok, qb, last)
	vfAssert(errB != nil, "truncated encoding: never success")
	vfAssert(errors.Is(errB, ErrNotEnoughBytes), "truncated encoding: ErrNotEnoughBytes")

	// the channel rolls back and retries with a fresh package once more data arrived
	qb.SetPosition(0, 0)
	qb.AddPacket(&Packet{Data: buf[t:]})
	pc, errC := c07Parse(tok, qb, last)
	vfAssert(errC == nil, "complete data after a truncated attempt parses")
	vfAssert(c07Consumed(qb) == c, "same bytes consumed as without the truncated attempt")
	vfAssertDeepEqual(pa, pc, "same package as without the truncated attempt")
	vfObserve("consumed", c)
	vfReach("end")
}

func HarnessC07_Done()         { c07Generic(TDS_DONE, nil, c07N(9, 9)) }
func HarnessC07_DoneProc()     { c07Generic(TDS_DONEPROC, nil, c07N(9, 9)) }
func HarnessC07_DoneInProc()   { c07Generic(TDS_DONEINPROC, nil, c07N(9, 9)) }
func HarnessC07_EED()          { c07Generic(TDS_EED, nil, c07N(20, 22)) }
func HarnessC07_Error()        { c07Generic(TDS_ERROR, nil, c07N(14, 16)) }
func HarnessC07_LoginAck()     { c07Generic(TDS_LOGINACK, nil, c07N(14, 16)) }
func HarnessC07_Msg()          { c07Generic(TDS_MSG, nil, c07N(6, 6)) }
func HarnessC07_ParamFmt()     { c07Generic(TDS_PARAMFMT, nil, c07N(10, 12)) }
func HarnessC07_ParamFmt2()    { c07Generic(TDS_PARAMFMT2, nil, c07N(16, 18)) }
func HarnessC07_RowFmt()       { c07Generic(TDS_ROWFMT, nil, c07N(11, 13)) }
func HarnessC07_RowFmt2()      { c07Generic(TDS_ROWFMT2, nil, c07N(18, 20)) }
func HarnessC07_Capability()   { c07Generic(TDS_CAPABILITY, nil, c07N(7, 9)) }
func HarnessC07_EnvChange()    { c07Generic(TDS_ENVCHANGE, nil, c07N(10, 12)) }
func HarnessC07_Language()     { c07Generic(TDS_LANGUAGE, nil, c07N(10, 12)) }
func HarnessC07_OrderBy()      { c07Generic(TDS_ORDERBY, &RowFmtPackage{}, c07N(6, 8)) }
func HarnessC07_OrderBy2()     { c07Generic(TDS_ORDERBY2, &RowFmtPackage{}, c07N(10, 12)) }
func HarnessC07_ReturnStatus() { c07Generic(TDS_RETURNSTATUS, nil, c07N(5, 5)) }
func HarnessC07_Logout()       { c07Generic(TDS_LOGOUT, nil, c07N(2, 2)) }
func HarnessC07_Dynamic()      { c07Generic(TDS_DYNAMIC, nil, c07N(12, 14)) }
func HarnessC07_Dynamic2()     { c07Generic(TDS_DYNAMIC2, nil, c07N(14, 16)) }
func HarnessC07_CurDeclare()   { c07Generic(TDS_CURDECLARE, nil, c07N(12, 14)) }
func HarnessC07_CurDeclare3()  { c07Generic(TDS_CURDECLARE3, nil, c07N(16, 18)) }
func HarnessC07_CurInfo()      { c07Generic(TDS_CURINFO, nil, c07N(12, 14)) }
func HarnessC07_CurInfo3()     { c07Generic(TDS_CURINFO3, nil, c07N(20, 22)) }
func HarnessC07_CurOpen()      { c07Generic(TDS_CUROPEN, nil, c07N(10, 12)) }
func HarnessC07_CurFetch()     { c07Generic(TDS_CURFETCH, nil, c07N(12, 14)) }
func HarnessC07_CurUpdate()    { c07Generic(TDS_CURUPDATE, nil, c07N(12, 14)) }
func HarnessC07_CurDelete()    { c07Generic(TDS_CURDELETE, nil, c07N(10, 12)) }

// PARAMS / ROW data after a fixed format (value readers incl. text pointers)
func c07Fmt(types ...asetypes.DataType) *ParamFmtPackage {
	var fs []FieldFmt
	for _, t := range types {
		f, err := LookupFieldFmt(t)
		vfAssert(err == nil, "harness: field format")
		fs = append(fs, f)
	}
	return NewParamFmtPackage(false, fs...)
}

func HarnessC07_ParamsInt4Varchar() {
	c07Generic(TDS_PARAMS, c07Fmt(asetypes.INT4, asetypes.VARCHAR), c07N(8, 10))
}
func HarnessC07_ParamsText() {
	c07Generic(TDS_PARAMS, c07Fmt(asetypes.TEXT), c07N(16, 18))
}
func HarnessC07_ParamsLongBinary() {
	c07Generic(TDS_PARAMS, c07Fmt(asetypes.LONGBINARY), c07N(7, 9))
}
