package tds

import "errors"

// C15: the packet queue behaves as a byte FIFO across packet boundaries.
//
// Inductive step: an arbitrary queue state satisfying the representation
// invariant (built directly, not through a history), one operation with
// symbolic arguments, compared with the flat byte-string model.
// Reachability witness for the invariant: HarnessC15_History.

const c15MaxBody = 600

// c15RxState builds an arbitrary read-side state: P packets with arbitrary body
// lengths and contents, cursor anywhere the invariant allows.
func c15RxState(maxP int) *PacketQueue {
	q := NewPacketQueue(func() int { return 512 })
	P := vfPick("P", 0, maxP)
	for i := 0; i < P; i++ {
		L := vfInt("L", 0, c15MaxBody)
		q.queue = append(q.queue, &Packet{Header: PacketHeader{Length: uint16(PacketHeaderSize + L)}, Data: vfBytes("body", L)})
	}
	ip := vfPick("ip", 0, P)
	id := vfInt("id", 0, c15MaxBody)
	// read-side positions: strictly inside a packet, or at the start of one
	// (Bytes moves to the next packet as soon as one is exhausted)
	if ip < P {
		vfAssume(id == 0 || id < len(q.queue[ip].Data))
	} else {
		vfAssume(id == 0)
	}
	q.indexPacket, q.indexData = ip, id
	return q
}

// flat model helpers
func c15Total(q *PacketQueue) int {
	n := 0
	for _, p := range q.queue {
		n += len(p.Data)
	}
	return n
}
func c15Cursor(q *PacketQueue) int {
	n := 0
	for i, p := range q.queue {
		if i >= q.indexPacket {
			break
		}
		n += len(p.Data)
	}
	return n + q.indexData
}
func c15At(q []*Packet, x int) byte {
	for _, p := range q {
		if x < len(p.Data) {
			return p.Data[x]
		}
		x -= len(p.Data)
	}
	vfAssert(false, "model index inside the queue")
	return 0
}
func c15HasEmpty(q []*Packet) bool {
	for _, p := range q {
		if len(p.Data) == 0 {
			return true
		}
	}
	return false
}
func c15Inv(q *PacketQueue, id string) {
	vfAssert(q.indexPacket >= 0 && q.indexPacket <= len(q.queue), id+": indexPacket in range")
	if q.indexPacket < len(q.queue) {
		vfAssert(q.indexData >= 0 && q.indexData <= len(q.queue[q.indexPacket].Data), id+": indexData in range")
	} else {
		vfAssert(q.indexData == 0, id+": indexData zero past the end")
	}
}

// Bytes(n): returns model bytes [cur,cur+n) or ErrNotEnoughBytes iff n > remaining.
func HarnessC15_Bytes() {
	maxP := 2
	if vfThorough() {
		maxP = 3
	}
	vfBound("packets", maxP)
	vfBound("body-bytes", c15MaxBody)
	q := c15RxState(maxP)
	snap := append([]*Packet{}, q.queue...)
	total, cur := c15Total(q), c15Cursor(q)
	sp, sd := q.Position()
	n := vfInt("n", 0, 4*c15MaxBody)
	bs, err := q.Bytes(n)
	vfAssert(len(bs) == n, "Bytes returns n bytes")
	if n <= total-cur {
		vfAssert(err == nil, "enough bytes: no error")
		vfAssert(c15Cursor(q) == cur+n, "cursor advanced by n")
		k := vfInt("k", 0, 4*c15MaxBody)
		if k < n {
			vfAssert(bs[k] == c15At(snap, cur+k), "byte k equals model byte cur+k")
		}
		c15Inv(q, "after Bytes")
	} else {
		vfAssert(err != nil, "short queue: error")
		vfAssert(errors.Is(err, ErrNotEnoughBytes), "short queue: ErrNotEnoughBytes")
		// restoring the saved position makes the same bytes readable again
		q.SetPosition(sp, sd)
		vfAssert(c15Cursor(q) == cur, "restored cursor")
		m := total - cur
		bs2, err2 := q.Bytes(m)
		vfAssert(err2 == nil, "after restore: all unread bytes readable")
		k := vfInt("k", 0, 4*c15MaxBody)
		if k < m {
			vfAssert(bs2[k] == c15At(snap, cur+k), "after restore: same bytes")
		}
	}
	vfObserve("err", err != nil)
	vfReach("end")
}

// c15Clone copies a queue state (packets are shared read-only on the rx side).
func c15Clone(q *PacketQueue) *PacketQueue {
	c := NewPacketQueue(q.packetSize)
	c.queue = append(c.queue, q.queue...)
	c.indexPacket, c.indexData, c.recvEOM = q.indexPacket, q.indexData, q.recvEOM
	return c
}

// typed reads are Bytes(k) (decided by HarnessC15_Bytes) decoded little endian.
func HarnessC15_TypedReads() {
	vfBound("packets", 3)
	q := c15RxState(3)
	ref := c15Clone(q)
	op := vfPick("op", 0, 8)
	var got, want uint64
	var width int
	var err error
	switch op {
	case 0:
		width = 1
		v, e := q.Byte()
		got, err = uint64(v), e
	case 1:
		width = 1
		v, e := q.Uint8()
		got, err = uint64(v), e
	case 2:
		width = 1
		v, e := q.Int8()
		got, err = uint64(uint8(v)), e
	case 3:
		width = 2
		v, e := q.Uint16()
		got, err = uint64(v), e
	case 4:
		width = 2
		v, e := q.Int16()
		got, err = uint64(uint16(v)), e
	case 5:
		width = 4
		v, e := q.Uint32()
		got, err = uint64(v), e
	case 6:
		width = 4
		v, e := q.Int32()
		got, err = uint64(uint32(v)), e
	case 7:
		width = 8
		v, e := q.Uint64()
		got, err = v, e
	default:
		width = 8
		v, e := q.Int64()
		got, err = uint64(v), e
	}
	bs, rerr := ref.Bytes(width)
	if rerr == nil {
		vfAssert(err == nil, "typed read: no error")
		for i := 0; i < width; i++ {
			want |= uint64(bs[i]) << (8 * uint(i)) // little endian is the package default
		}
		vfAssert(got == want, "typed read: little-endian value of the next bytes")
	} else {
		vfAssert(errors.Is(err, ErrNotEnoughBytes), "typed read on short queue: ErrNotEnoughBytes")
	}
	rp, rd := ref.Position()
	gp, gd := q.Position()
	vfAssert(rp == gp && rd == gd, "typed read: cursor where Bytes(width) leaves it")
	vfObserve("got", got)
	vfReach("end")
}

// String(n) and Read(p) deliver the model bytes; Read fills the caller's buffer.
func HarnessC15_StringRead() {
	vfBound("packets", 2)
	q := c15RxState(2)
	snap := append([]*Packet{}, q.queue...)
	total, cur := c15Total(q), c15Cursor(q)
	n := vfInt("n", 0, 2*c15MaxBody)
	vfAssume(n <= total-cur)
	k := vfInt("k", 0, 2*c15MaxBody)
	if vfBool("useRead") {
		p := make([]byte, n)
		m, err := q.Read(p)
		vfAssert(err == nil && m == n, "Read: n bytes, no error")
		if k < n {
			vfAssert(p[k] == c15At(snap, cur+k), "Read fills the caller's buffer with the model bytes")
		}
	} else {
		s, err := q.String(n)
		vfAssert(err == nil && len(s) == n, "String: n bytes, no error")
		if k < n {
			vfAssert(s[k] == c15At(snap, cur+k), "String returns the model bytes")
		}
	}
	vfAssert(c15Cursor(q) == cur+n, "cursor advanced by n")
	vfReach("end")
}

// DiscardUntilCurrentPosition never drops an unread byte.
func HarnessC15_Discard() {
	vfBound("packets", 3)
	q := c15RxState(3)
	snap := append([]*Packet{}, q.queue...)
	total, cur := c15Total(q), c15Cursor(q)
	q.DiscardUntilCurrentPosition()
	c15Inv(q, "after discard")
	rest := c15Total(q) - c15Cursor(q)
	vfAssert(rest == total-cur, "discard keeps the number of unread bytes")
	bs, err := q.Bytes(rest)
	vfAssert(err == nil, "unread bytes still readable after discard")
	k := vfInt("k", 0, 3*c15MaxBody)
	if k < rest {
		vfAssert(bs[k] == c15At(snap, cur+k), "unread bytes unchanged by discard")
	}
	if !c15HasEmpty(snap) {
		// (several trailing empty-body packets leave the cursor on the first of
		// them: a degenerate state that loses no byte; Channel never enqueues
		// empty-body packets, so it is not demanded here)
		vfAssert(q.AllPacketsConsumed(), "everything consumed afterwards")
	}
	vfReach("end")
}

// AddPacket appends at the end; IsEOM only once everything is consumed.
func HarnessC15_AddPacketEOM() {
	vfBound("packets", 2)
	q := c15RxState(2)
	snap := append([]*Packet{}, q.queue...)
	total, cur := c15Total(q), c15Cursor(q)
	L := vfInt("Ln", 0, c15MaxBody)
	st := PacketHeaderStatus(vfU8("status"))
	pk := &Packet{Header: PacketHeader{Length: uint16(PacketHeaderSize + L), Status: st}, Data: vfBytes("bodyn", L)}
	q.AddPacket(pk)
	vfAssert(c15Total(q) == total+L && c15Cursor(q) == cur, "AddPacket appends, cursor unchanged")
	if total+L-cur > 0 {
		vfAssert(!q.IsEOM(), "IsEOM false while unread data remains")
	}
	bs, err := q.Bytes(total + L - cur)
	vfAssert(err == nil, "all bytes readable")
	k := vfInt("k", 0, c15MaxBody)
	if k < L {
		vfAssert(bs[total-cur+k] == pk.Data[k], "new packet's bytes come last, in order")
	}
	if !c15HasEmpty(snap) {
		// (two or more empty-body packets in a row leave the cursor on the first
		// of them: a degenerate state that loses no byte and that Channel, which
		// never enqueues empty-body packets, cannot produce)
		vfAssert(q.IsEOM() == (st&TDS_BUFSTAT_EOM != 0), "IsEOM iff consumed and EOM packet seen")
	}
	vfReach("end")
}

// c15TxState builds an arbitrary write-side state: P packets of (possibly
// different) sizes, all before the cursor full, cursor inside the last one.
func c15TxState(maxP int, ps func() int) *PacketQueue {
	q := NewPacketQueue(ps)
	P := vfPick("P", 0, maxP)
	for i := 0; i < P; i++ {
		size := vfInt("size", 9, c15MaxBody)
		pk := NewPacket(size)
		copy(pk.Data, vfBytes("body", size-PacketHeaderSize))
		q.queue = append(q.queue, pk)
	}
	if P > 0 {
		q.indexPacket = P - 1
		q.indexData = vfInt("id", 0, c15MaxBody)
		vfAssume(q.indexData <= len(q.queue[P-1].Data))
	}
	return q
}

// WriteBytes appends at the cursor; packets are laid out in the current packet
// size and each is filled completely before the next is opened.
// One assertion family per harness (content / preservation / layout).
func c15Write(maxP int) (q *PacketQueue, P0, cur, m, body int, bs, old []byte) {
	vfBound("packets-before", maxP)
	vfBound("new-packets", 3)
	vfLoopBound(8)
	size := vfInt("ps", 9, c15MaxBody)
	body = size - PacketHeaderSize
	q = c15TxState(maxP, func() int { return size })
	P0 = len(q.queue)
	cur = c15Cursor(q)
	for _, p := range q.queue {
		old = append(old, p.Data...)
	}
	m = vfInt("m", 0, 3*c15MaxBody)
	vfAssume(m <= 3*body)
	bs = vfBytes("bs", m)
	err := q.WriteBytes(bs)
	vfAssert(err == nil, "WriteBytes: no error")
	return
}

func HarnessC15_WriteBytesContent() {
	q, _, cur, m, _, bs, _ := c15Write(1)
	k := vfInt("k", 0, 3*c15MaxBody)
	if k < m {
		vfAssert(c15At(q.queue, cur+k) == bs[k], "written byte k is at flat position cur+k")
	}
	vfReach("end")
}

func HarnessC15_WriteBytesPreserve() {
	q, _, cur, _, _, _, old := c15Write(2)
	j := vfInt("j", 0, 3*c15MaxBody)
	if j < cur {
		vfAssert(c15At(q.queue, j) == old[j], "bytes before the cursor unchanged")
	}
	vfReach("end")
}

func HarnessC15_WriteBytesLayout() {
	q, P0, cur, m, body, _, _ := c15Write(2)
	vfAssert(c15Cursor(q) == cur+m, "cursor advanced by len(bs)")
	c15Inv(q, "after WriteBytes")
	for i, p := range q.queue {
		vfAssert(int(p.Header.Length) == PacketHeaderSize+len(p.Data), "header length = 8 + body")
		if i >= P0 {
			vfAssert(len(p.Data) == body, "new packets have the current packet size")
		}
	}
	// every packet but the last is full: the cursor is in the last packet
	if len(q.queue) > 0 {
		vfAssert(q.indexPacket == len(q.queue)-1, "cursor in the last packet (all others full)")
		if m > 0 {
			vfAssert(q.indexData > 0, "no packet opened before it is needed")
		}
	}
	vfReach("end")
}

// the packet size may change between writes: every new packet uses the size
// in force when it is opened.
func HarnessC15_WriteChangingSize() {
	vfBound("new-packets", 2)
	vfLoopBound(8)
	s1 := vfInt("ps1", 9, c15MaxBody)
	s2 := vfInt("ps2", 9, c15MaxBody)
	calls := 0
	q := NewPacketQueue(func() int {
		calls++
		if calls == 1 {
			return s1
		}
		return s2
	})
	m := vfInt("m", 1, 2*c15MaxBody)
	vfAssume(m <= (s1-8)+(s2-8))
	bs := vfBytes("bs", m)
	vfAssert(q.WriteBytes(bs) == nil, "no error")
	vfAssert(len(q.queue[0].Data) == s1-8, "first packet uses the first size")
	if m > s1-8 {
		vfAssert(len(q.queue) == 2 && len(q.queue[1].Data) == s2-8, "second packet uses the new size")
	} else {
		vfAssert(len(q.queue) == 1, "no second packet before the first is full")
	}
	k := vfInt("k", 0, 2*c15MaxBody)
	if k < m {
		vfAssert(c15At(q.queue, k) == bs[k], "bytes in order across the size change")
	}
	vfReach("end")
}

// typed writes are WriteBytes (decided by HarnessC15_WriteBytes*) of the
// little-endian encoding: compared with a reference queue, packet by packet.
func HarnessC15_TypedWrites() {
	vfLoopBound(12)
	size := vfInt("ps", 9, c15MaxBody)
	q := c15TxState(1, func() int { return size })
	ref := NewPacketQueue(func() int { return size })
	for _, p := range q.queue {
		c := NewPacket(int(p.Header.Length))
		copy(c.Data, p.Data)
		ref.queue = append(ref.queue, c)
	}
	ref.indexPacket, ref.indexData = q.indexPacket, q.indexData
	v := vfU64("v")
	op := vfPick("op", 0, 9)
	width := 0
	switch op {
	case 0:
		width = 1
		q.WriteByte(byte(v))
	case 1:
		width = 1
		q.WriteUint8(uint8(v))
	case 2:
		width = 1
		q.WriteInt8(int8(v))
	case 3:
		width = 2
		q.WriteUint16(uint16(v))
	case 4:
		width = 2
		q.WriteInt16(int16(v))
	case 5:
		width = 4
		q.WriteUint32(uint32(v))
	case 6:
		width = 4
		q.WriteInt32(int32(v))
	case 7:
		width = 8
		q.WriteUint64(v)
	case 8:
		width = 8
		q.WriteInt64(int64(v))
	default:
		width = vfPick("slen", 0, 5)
	}
	le := make([]byte, width)
	if op == 9 {
		s := vfString("s", width)
		q.WriteString(s)
		copy(le, s)
	} else {
		for i := 0; i < width; i++ {
			le[i] = byte(v >> (8 * uint(i)))
		}
	}
	ref.WriteBytes(le)
	vfAssert(len(q.queue) == len(ref.queue), "typed write: same number of packets as WriteBytes")
	vfAssert(q.indexPacket == ref.indexPacket && q.indexData == ref.indexData, "typed write: same cursor as WriteBytes")
	if len(q.queue) == len(ref.queue) {
		for i := range q.queue {
			vfAssert(len(q.queue[i].Data) == len(ref.queue[i].Data), "typed write: same packet sizes")
		}
		// skolem position (packet pi, offset x)
		pi := vfPick("pi", 0, 2)
		x := vfInt("x", 0, c15MaxBody)
		if pi < len(q.queue) && x < len(q.queue[pi].Data) && x < len(ref.queue[pi].Data) {
			vfAssert(q.queue[pi].Data[x] == ref.queue[pi].Data[x], "typed write: same bytes as WriteBytes of the little-endian encoding")
		}
	}
	vfReach("end")
}

// Reset gives an empty queue.
func HarnessC15_Reset() {
	q := c15RxState(2)
	q.recvEOM = vfBool("eom")
	q.Reset()
	vfAssert(len(q.queue) == 0 && q.indexPacket == 0 && q.indexData == 0 && !q.recvEOM, "Reset empties the queue")
	vfAssert(q.AllPacketsConsumed() && !q.IsEOM(), "empty queue: consumed, not EOM")
	_, err := q.Bytes(1)
	vfAssert(errors.Is(err, ErrNotEnoughBytes), "empty queue: not enough bytes")
	vfReach("end")
}

// Reachability witness for the invariants above: histories of operations from
// the empty queue, compared with a flat slice model at every step.
func HarnessC15_History() {
	vfBound("operations", 4)
	vfLoopBound(48)
	size := vfInt("ps", 9, 24)
	q := NewPacketQueue(func() int { return size })
	var model []byte
	rd := 0 // bytes consumed (rx view: read position; tx view: everything is "written")
	steps := 3
	if vfThorough() {
		steps = 4
	}
	for s := 0; s < steps; s++ {
		switch vfPick("op", 0, 3) {
		case 0: // enqueue a received packet
			L := vfInt("L", 0, 6)
			d := vfBytes("d", L)
			q.AddPacket(&Packet{Header: PacketHeader{Length: uint16(8 + L)}, Data: d})
			model = append(model, d...)
		case 1: // read n bytes with save/restore on failure
			n := vfInt("n", 0, 8)
			sp, sd := q.Position()
			bs, err := q.Bytes(n)
			if n <= len(model)-rd {
				vfAssert(err == nil, "history: read succeeds")
				for i := 0; i < n; i++ {
					vfAssert(bs[i] == model[rd+i], "history: read returns model bytes")
				}
				rd += n
			} else {
				vfAssert(errors.Is(err, ErrNotEnoughBytes), "history: short read")
				q.SetPosition(sp, sd)
			}
		case 2:
			q.DiscardUntilCurrentPosition()
		default:
			q.Reset()
			model, rd = nil, 0
		}
		c15Inv(q, "history")
		vfAssert(c15Total(q)-c15Cursor(q) == len(model)-rd, "history: unread byte count equals model")
	}
	vfReach("end")
}
