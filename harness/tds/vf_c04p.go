package tds

import "github.com/SAP/go-dblib/asetypes"

// C04, package leg: values travel inside PARAMFMT + PARAMS together with their
// format (symbolic column status incl. the per-value status byte) and come back
// unchanged.
func HarnessC04_ParamsRoundTrip() {
	vfLoopBound(300)
	status := uint(vfU8("fmtstatus"))
	i4fmt, i4, err := LookupFieldFmtData(asetypes.INT4)
	vfAssert(err == nil, "harness: INT4 field")
	vcfmt, vc, err := LookupFieldFmtData(asetypes.VARCHAR)
	vfAssert(err == nil, "harness: VARCHAR field")
	infmt, in, err := LookupFieldFmtData(asetypes.INTN)
	vfAssert(err == nil, "harness: INTN field")
	for _, f := range []FieldFmt{i4fmt, vcfmt, infmt} {
		f.SetStatus(status)
	}
	vcfmt.setMaxLength(255)
	infmt.setMaxLength(4)
	x := vfI32("int4")
	s := vfString("varchar", vfPick("len", 1, 3))
	y := vfI32("intn")
	i4.SetValue(x)
	vc.SetValue(s)
	in.SetValue(y)
	fmtPkg := NewParamFmtPackage(false, i4fmt, vcfmt, infmt)
	params := NewParamsPackage(i4, vc, in)
	vfAssert(params.LastPkg(fmtPkg) == nil, "harness: LastPkg (writer)")
	q := NewPacketQueue(func() int { return 512 })
	vfAssert(fmtPkg.WriteTo(q) == nil && params.WriteTo(q) == nil, "format and data are written")
	written := c15Cursor(q)
	q.SetPosition(0, 0)
	tok, _ := q.Byte()
	rf, err := c07Parse(Token(tok), q, nil)
	vfAssert(err == nil, "the format reads back")
	tok, _ = q.Byte()
	vfAssert(Token(tok) == TDS_PARAMS, "data token")
	rp, err := c07Parse(Token(tok), q, rf)
	vfAssert(err == nil, "the data reads back")
	vfAssert(c15Cursor(q) == written, "exactly the written bytes are consumed")
	if err == nil {
		back := rp.(*ParamsPackage)
		vfAssert(len(back.DataFields) == 3, "three values")
		if len(back.DataFields) == 3 {
			vfAssert(vfDeepEqual(back.DataFields[0].Value(), x), "INT4 survives the package round trip")
			vfAssert(vfDeepEqual(back.DataFields[1].Value(), s), "VARCHAR survives the package round trip")
			vfAssert(vfDeepEqual(back.DataFields[2].Value(), y), "INTN survives the package round trip")
		}
	}
	vfObserve("written", written)
	vfReach("end")
}

// outgoing packets of a logical channel carry its id and consecutive packet
// numbers mod 256 (decided by the C01 shape harness, here for C12)
func HarnessC12_PacketNumbers() {
	ch, hc, ps, id, mt, nr := c01Setup()
	vfAssume(id > 0)
	m := c01Message("m", 1, ps-8, 2)
	vfAssert(m.send(ch) == nil, "send succeeds")
	c01CheckShape(hc.writes, m, ps, mt, id, nr)
	vfReach("end")
}
