package tds

// Reference encoders for server responses (independent of the library's
// WriteTo methods): little-endian fields, TDS 5.0 token layouts.

type hResp struct{ b []byte }

func (r *hResp) u8(v byte)    { r.b = append(r.b, v) }
func (r *hResp) u16(v uint16) { r.b = append(r.b, byte(v), byte(v>>8)) }
func (r *hResp) u32(v uint32) { r.b = append(r.b, byte(v), byte(v>>8), byte(v>>16), byte(v>>24)) }
func (r *hResp) str(s string) { r.b = append(r.b, s...) }

// DONE / DONEPROC / DONEINPROC: token, status(2), transtate(2), count(4)
func (r *hResp) done(tok Token, status, tran uint16, count uint32) {
	r.u8(byte(tok))
	r.u16(status)
	r.u16(tran)
	r.u32(count)
}

// EED: token, length(2), msgnumber(4), state, class, sqlstatelen, sqlstate,
// status, transtate(2), msglen(2), msg, servernamelen, servername, procnamelen,
// procname, linenr(2)
func (r *hResp) eed(status byte, msgNr uint32, msg, server string) {
	r.u8(byte(TDS_EED))
	r.u16(uint16(4 + 1 + 1 + 1 + 0 + 1 + 2 + 2 + len(msg) + 1 + len(server) + 1 + 0 + 2))
	r.u32(msgNr)
	r.u8(1)
	r.u8(10)
	r.u8(0)
	r.u8(status)
	r.u16(0)
	r.u16(uint16(len(msg)))
	r.str(msg)
	r.u8(byte(len(server)))
	r.str(server)
	r.u8(0)
	r.u16(7)
}

type hEnvMember struct {
	typ      byte
	new, old string
}

// ENVCHANGE: token, length(2), members: type, newlen, new, oldlen, old
func (r *hResp) envchange(ms ...hEnvMember) {
	r.u8(byte(TDS_ENVCHANGE))
	n := 0
	for _, m := range ms {
		n += 3 + len(m.new) + len(m.old)
	}
	r.u16(uint16(n))
	for _, m := range ms {
		r.u8(m.typ)
		r.u8(byte(len(m.new)))
		r.str(m.new)
		r.u8(byte(len(m.old)))
		r.str(m.old)
	}
}

// RETURNSTATUS: token, value(4)
func (r *hResp) retstat(v uint32) {
	r.u8(byte(TDS_RETURNSTATUS))
	r.u32(v)
}

// hDeliver feeds a response to the channel as one or two packets (cut == 0 or
// cut >= len: one packet); the last packet carries EOM.
func hDeliver(ch *Channel, resp []byte, cut int) {
	if cut > 0 && cut < len(resp) {
		ch.WritePacket(&Packet{Header: PacketHeader{Length: uint16(PacketHeaderSize + cut)}, Data: resp[:cut]})
		ch.WritePacket(&Packet{Header: PacketHeader{Length: uint16(PacketHeaderSize + len(resp) - cut), Status: TDS_BUFSTAT_EOM}, Data: resp[cut:]})
		return
	}
	ch.WritePacket(&Packet{Header: PacketHeader{Length: uint16(PacketHeaderSize + len(resp)), Status: TDS_BUFSTAT_EOM}, Data: resp})
}

// hDrain takes everything queued on the channel without blocking.
func hDrain(ch *Channel) (pkgs []Package, errs []error) {
	for len(ch.packageCh) > 0 {
		pkgs = append(pkgs, <-ch.packageCh)
	}
	for len(ch.errCh) > 0 {
		errs = append(errs, <-ch.errCh)
	}
	return
}
