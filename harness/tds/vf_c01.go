package tds

// C01: outgoing messages are well-formed TDS packet sequences.
//
// One message = k packages with arbitrary encodings of symbolic lengths, sent
// with a symbolic split over QueuePackage / SendRemainingPackets / SendPackage,
// from a symbolic channel state (header type, channel id, packet counter,
// packet size). The captured transport writes are parsed by an independent
// header decoder. The step starts from the state Reset() leaves behind, so it
// covers successive messages of any history (see HarnessC01_TwoMessages for the
// reachability of that state, incl. a packet-size change in between).

type c01Msg struct {
	k       int
	lens    []int
	pkgs    []*rawPkg
	total   int
	usePkg  bool // last package through SendPackage
}

func c01Message(name string, k int, body int, maxBodies int) *c01Msg {
	m := &c01Msg{k: k}
	for i := 0; i < k; i++ {
		l := vfInt(name+"len", 1, 4*65535)
		m.lens = append(m.lens, l)
		m.total += l
		m.pkgs = append(m.pkgs, &rawPkg{data: vfBytes(name+"data", l)})
	}
	vfAssume(m.total <= maxBodies*body+1)
	m.usePkg = vfBool(name + "viaSendPackage")
	return m
}

func (m *c01Msg) send(ch *Channel) error {
	ctx := vfNewCtx("send")
	for i, p := range m.pkgs {
		if i == m.k-1 && m.usePkg {
			return ch.SendPackage(ctx, p)
		}
		if err := ch.QueuePackage(ctx, p); err != nil {
			return err
		}
	}
	return ch.SendRemainingPackets(ctx)
}

// byte x of the concatenated package encodings
func (m *c01Msg) at(x int) byte {
	for _, p := range m.pkgs {
		if x < len(p.data) {
			return p.data[x]
		}
		x -= len(p.data)
	}
	vfAssert(false, "model index inside message")
	return 0
}

// c01Check asserts the shape of the captured writes w for message m.
func c01CheckShape(w [][]byte, m *c01Msg, ps int, msgType PacketHeaderType, chanId int, firstNr int) {
	vfAssert(len(w) >= 1, "at least one packet per message")
	bodies := 0
	for j, p := range w {
		vfAssert(len(p) >= PacketHeaderSize, "a packet has a header")
		h := hParseHeader(p)
		vfAssert(h.length == len(p), "header length equals the real size")
		vfAssert(len(p) <= ps, "packet not larger than the packet size in force")
		if j < len(w)-1 {
			vfAssert(len(p) == ps, "every packet but the last is full")
			vfAssert(h.status&byte(TDS_BUFSTAT_EOM) == 0, "EOM on no packet but the last")
		} else {
			vfAssert(h.status&byte(TDS_BUFSTAT_EOM) != 0, "EOM set on the last packet")
		}
		vfAssert(h.msgType == byte(msgType), "packets carry the channel's message type")
		if chanId > 0 {
			vfAssert(h.channel == chanId, "packets carry the channel id")
			vfAssert(int(h.packetNr) == (firstNr+j)%256, "consecutive packet numbers mod 256")
		}
		bodies += len(p) - PacketHeaderSize
	}
	vfAssert(bodies == m.total, "bodies add up to the packages' encodings")
}

// byte x of the concatenated packet bodies
func c01BodyAt(w [][]byte, x int) byte {
	for _, p := range w {
		n := len(p) - PacketHeaderSize
		if x < n {
			return p[PacketHeaderSize+x]
		}
		x -= n
	}
	vfAssert(false, "body index inside the packets")
	return 0
}

func c01Setup() (*Channel, *hConn, int, int, PacketHeaderType, int) {
	vfLoopBound(12)
	ps := vfInt("packetSize", 256, 65535)
	tds, hc := hNewConn(ps)
	id := vfInt("channelId", 0, 65535)
	ch := hNewChannel(tds, id)
	mt := PacketHeaderType(vfU8("msgType"))
	ch.CurrentHeaderType = mt
	nr := vfInt("curPacketNr", 0, 255)
	ch.curPacketNr = nr
	return ch, hc, ps, id, mt, nr
}

func c01K() int {
	if vfThorough() {
		return vfPick("k", 1, 3)
	}
	return vfPick("k", 1, 2)
}

// shape of the packets of one message
func HarnessC01_Shape() {
	vfBound("packages", 3)
	vfBound("packet-bodies", 3)
	ch, hc, ps, id, mt, nr := c01Setup()
	m := c01Message("m", c01K(), ps-8, 3)
	err := m.send(ch)
	vfAssert(err == nil, "send succeeds")
	c01CheckShape(hc.writes, m, ps, mt, id, nr)
	vfObserve("packets", len(hc.writes))
	vfObserve("lastlen", len(hc.writes[len(hc.writes)-1]))
	vfAssert(len(ch.queueTx.queue) == 0 && ch.queueTx.indexPacket == 0 && ch.queueTx.indexData == 0, "nothing left behind for the next message")
	vfReach("end")
}

// content: bodies concatenate to the packages' encodings
func HarnessC01_Content() {
	vfBound("packages", 3)
	vfBound("packet-bodies", 3)
	ch, hc, ps, _, _, _ := c01Setup()
	m := c01Message("m", c01K(), ps-8, 3)
	err := m.send(ch)
	vfAssert(err == nil, "send succeeds")
	x := vfInt("x", 0, 4*65535)
	if x < m.total {
		bodies := 0
		for _, p := range hc.writes {
			bodies += len(p) - PacketHeaderSize
		}
		if x < bodies {
			b := c01BodyAt(hc.writes, x)
			vfObserve("bodybyte", b)
			vfAssert(b == m.at(x), "body byte x equals encoding byte x")
		}
	}
	vfReach("end")
}

// two successive messages with a packet-size change in between; the second
// message must be as well-formed as the first (nothing carried over).
func HarnessC01_TwoMessages() {
	vfBound("messages", 2)
	vfBound("packet-bodies", 2)
	ch, hc, ps, id, _, nr := c01Setup()
	m1 := c01Message("a", 1, ps-8, 2)
	vfAssert(m1.send(ch) == nil, "first send succeeds")
	n1 := len(hc.writes)
	vfAssert(ch.CurrentHeaderType == TDS_BUF_NORMAL, "header type back to normal after a message")
	ps2 := vfInt("packetSize2", 256, 65535)
	ch.tdsConn.packetSize = ps2
	mt2 := PacketHeaderType(vfU8("msgType2"))
	ch.CurrentHeaderType = mt2
	m2 := c01Message("b", 1, ps2-8, 2)
	vfAssert(m2.send(ch) == nil, "second send succeeds")
	c01CheckShape(hc.writes[n1:], m2, ps2, mt2, id, (nr+n1)%256)
	x := vfInt("x", 0, 4*65535)
	if x < m2.total {
		vfAssert(c01BodyAt(hc.writes[n1:], x) == m2.at(x), "second message: body byte x equals encoding byte x")
	}
	vfReach("end")
}
