package tds

// C10: no server input can crash the client.
//
// (i) per token: the token followed by arbitrary bytes (symbolic content and
// symbolic available length <= N) arrives as the EOM packet of a response and
// goes through the real Channel.WritePacket / tryParsePackage / ReadFrom.
// Obligations: no panic outcome (index, slice, nil, make, type assertion,
// division), every loop terminates within the unwinding bound, and the sum of
// all make/append sizes stays proportional to the bytes received.

const c10AllocBase = 2 << 20 // admits 16-bit-count tables and one 64 KiB body

// c10AllocCheck asserts the allocation bound. Known finding F-C10-bytes-prealloc:
// PacketQueue.Bytes allocates the requested (wire-declared) length before it
// knows whether that many bytes are available; the region is that call site.
func c10AllocCheck(received int) {
	limit := c10AllocBase + 16*received
	inBytes := vfAllocBytesIn("PacketQueue).Bytes")
	vfAssert(vfAllocBytes()-inBytes <= limit/2, "memory allocated outside PacketQueue.Bytes in proportion to the bytes received")
	vfKnown("F-C10-bytes-prealloc", inBytes > limit/2)
	vfAssert(vfAllocBytes() <= limit, "memory allocated in proportion to the bytes received")
}

func c10N(quick, thorough int) int {
	if vfThorough() {
		return thorough
	}
	return quick
}

func c10Token(tok byte, N int) {
	vfBound("bytes-after-token", N)
	vfLoopBound(120)
	vfUnwindIsViolation()
	tds, _ := hNewConn(512)
	ch := hNewChannel(tds, 0)
	buf := vfBytes("buf", N)
	L := vfInt("avail", 0, N)
	data := append([]byte{tok}, buf[:L]...)
	eom := PacketHeaderStatus(0)
	if vfBool("eom") {
		eom = TDS_BUFSTAT_EOM
	}
	ch.WritePacket(&Packet{Header: PacketHeader{Length: uint16(PacketHeaderSize + len(data)), Status: eom}, Data: data})
	c10AllocCheck(L + 1)
	vfObserve("queued", len(ch.packageCh))
	vfReach("end")
}

func HarnessC10_TokDone()         { c10Token(byte(TDS_DONE), c10N(10, 12)) }
func HarnessC10_TokDoneProc()     { c10Token(byte(TDS_DONEPROC), c10N(10, 12)) }
func HarnessC10_TokDoneInProc()   { c10Token(byte(TDS_DONEINPROC), c10N(10, 12)) }
func HarnessC10_TokEED()          { c10Token(byte(TDS_EED), c10N(14, 20)) }
func HarnessC10_TokError()        { c10Token(byte(TDS_ERROR), c10N(12, 14)) }
func HarnessC10_TokLoginAck()     { c10Token(byte(TDS_LOGINACK), c10N(12, 14)) }
func HarnessC10_TokMsg()          { c10Token(byte(TDS_MSG), c10N(6, 8)) }
func HarnessC10_TokParamFmt()     { c10Token(byte(TDS_PARAMFMT), c10N(6, 8)) }
func HarnessC10_TokParamFmt2()    { c10Token(byte(TDS_PARAMFMT2), c10N(8, 10)) }
func HarnessC10_TokRowFmt()       { c10Token(byte(TDS_ROWFMT), c10N(7, 9)) }
func HarnessC10_TokRowFmt2()      { c10Token(byte(TDS_ROWFMT2), c10N(8, 10)) }
func HarnessC10_TokParams()       { c10Token(byte(TDS_PARAMS), c10N(8, 10)) }
func HarnessC10_TokRow()          { c10Token(byte(TDS_ROW), c10N(8, 10)) }
func HarnessC10_TokCapability()   { c10Token(byte(TDS_CAPABILITY), c10N(5, 7)) }
func HarnessC10_TokEnvChange()    { c10Token(byte(TDS_ENVCHANGE), c10N(5, 7)) }
func HarnessC10_TokLanguage()     { c10Token(byte(TDS_LANGUAGE), c10N(7, 9)) }
func HarnessC10_TokOrderBy()      { c10Token(byte(TDS_ORDERBY), c10N(6, 8)) }
func HarnessC10_TokOrderBy2()     { c10Token(byte(TDS_ORDERBY2), c10N(10, 12)) }
func HarnessC10_TokReturnStatus() { c10Token(byte(TDS_RETURNSTATUS), c10N(6, 8)) }
func HarnessC10_TokLogout()       { c10Token(byte(TDS_LOGOUT), c10N(3, 5)) }
func HarnessC10_TokDynamic()      { c10Token(byte(TDS_DYNAMIC), c10N(7, 9)) }
func HarnessC10_TokDynamic2()     { c10Token(byte(TDS_DYNAMIC2), c10N(9, 11)) }
func HarnessC10_TokCurDeclare()   { c10Token(byte(TDS_CURDECLARE), c10N(9, 11)) }
func HarnessC10_TokCurDeclare3()  { c10Token(byte(TDS_CURDECLARE3), c10N(12, 14)) }
func HarnessC10_TokCurInfo()      { c10Token(byte(TDS_CURINFO), c10N(9, 11)) }
func HarnessC10_TokCurInfo3()     { c10Token(byte(TDS_CURINFO3), c10N(13, 15)) }
func HarnessC10_TokCurOpen()      { c10Token(byte(TDS_CUROPEN), c10N(8, 10)) }
func HarnessC10_TokCurFetch()     { c10Token(byte(TDS_CURFETCH), c10N(8, 10)) }
func HarnessC10_TokCurUpdate()    { c10Token(byte(TDS_CURUPDATE), c10N(10, 12)) }
func HarnessC10_TokCurDelete()    { c10Token(byte(TDS_CURDELETE), c10N(10, 12)) }
func HarnessC10_TokUnknown()      { c10Token(0x01, c10N(6, 8)) }

// (iv) packet level: an arbitrary 8-byte header (including Length < 8) followed
// by an arbitrary stream, handed over in arbitrary chunks.
func HarnessC10_PacketReadFrom() {
	vfLoopBound(40)
	vfUnwindIsViolation()
	N := c10N(10, 12)
	vfBound("stream-bytes", N)
	L := vfInt("avail", 0, N)
	st := &hStream{data: vfBytes("stream", N)[:L], end: vfPick("end", 0, 2), maxChunks: 3}
	p := &Packet{}
	ctx := vfNewCtx("conn")
	n, err := p.ReadFrom(ctx, st, 5)
	if err == nil {
		vfAssert(int(n) == int(p.Header.Length), "ReadFrom without error read Header.Length bytes")
		vfAssert(len(p.Data) == int(p.Header.Length)-PacketHeaderSize, "body length matches the header")
	}
	c10AllocCheck(L)
	vfObserve("n", n)
	vfReach("end")
}

// (v) an ENVCHANGE with an arbitrary new packet size followed by a send.
func HarnessC10_EnvChangePacketSize() {
	vfLoopBound(40)
	vfUnwindIsViolation()
	tds, _ := hNewConn(512)
	ch := hNewChannel(tds, 0)
	// the numeral is given by its symbolic digits (so that parsing it stays linear)
	maxDigits := 3
	if vfThorough() {
		maxDigits = 4
	}
	k := vfPick("digits", 1, maxDigits)
	size := 0
	s := make([]byte, k)
	for i := 0; i < k; i++ {
		d := vfInt("digit", 0, 9)
		s[i] = byte('0' + d)
		size = size*10 + d
	}
	data := []byte{byte(TDS_ENVCHANGE), byte(3 + len(s)), 0, byte(TDS_ENV_PACKSIZE), byte(len(s))}
	data = append(data, s...)
	data = append(data, 0)
	ch.WritePacket(&Packet{Header: PacketHeader{Length: uint16(PacketHeaderSize + len(data)), Status: TDS_BUFSTAT_EOM}, Data: data})
	if size > PacketHeaderSize && size <= 65535 {
		vfAssert(len(ch.errCh) == 0, "a usable packet size is accepted")
		vfAssert(tds.PacketSize() == size, "the announced packet size is applied")
	} else {
		vfAssert(tds.PacketSize() == 512, "an unusable packet size is not applied")
	}
	m := vfInt("m", 1, 2)
	err := ch.SendPackage(vfNewCtx("send"), &rawPkg{data: vfBytes("msg", m)})
	_ = err
	c10AllocCheck(len(data) + m)
	vfReach("end")
}
