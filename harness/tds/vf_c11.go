package tds

import "errors"

// C11: server messages and environment changes are surfaced exactly once.

type c11EedLog struct {
	msgNr  uint32
	queued int // packages already handed to the consumer queue when the hook ran
}
type c11EnvLog struct {
	typ      EnvChangeType
	old, new string
}

type c11Exp struct {
	eeds     []uint32 // message numbers of non-info EEDs, in order
	eedPos   []int    // deliverable packages preceding each of them
	envs     []c11EnvLog
	deliver  int // deliverable packages before the final DONE
	packSize int
	before   []int // per package seen by the callback: messages delivered before it
}

// c11Response builds a response with symbolic EED status bytes and environment
// changes and computes what hooks and consumer must observe.
func c11Response(r *hResp, maxItems int) *c11Exp {
	e := &c11Exp{packSize: 512}
	n := vfPick("items", 1, maxItems)
	for i := 0; i < n; i++ {
		switch vfPick("kind", 0, 2) {
		case 0: // EED with symbolic status
			st := vfU8("eedstatus")
			nr := vfU32("msgnr")
			r.eed(st, nr, "m", "s")
			if st&byte(TDS_EED_INFO) == 0 {
				e.eeds = append(e.eeds, nr)
				e.eedPos = append(e.eedPos, e.deliver)
				e.deliver++
			}
		case 1: // ENVCHANGE with 0..2 members
			k := vfPick("members", 0, 2)
			var ms []hEnvMember
			for j := 0; j < k; j++ {
				typ := vfU8("envtype")
				m := hEnvMember{typ: typ, new: "n", old: "o"}
				if typ == byte(TDS_ENV_PACKSIZE) {
					d := vfInt("sizedigit", 1, 9)
					m.new = string([]byte{byte('0' + d), '0', '0'})
					e.packSize = d * 100
				}
				ms = append(ms, m)
				e.envs = append(e.envs, c11EnvLog{EnvChangeType(typ), m.old, m.new})
			}
			r.envchange(ms...)
		default:
			r.retstat(vfU32("retval"))
			e.deliver++
			e.before = append(e.before, len(e.eeds))
		}
	}
	r.done(TDS_DONE, 0, 0, 0)
	e.before = append(e.before, len(e.eeds))
	return e
}

func c11MaxItems() int {
	if vfThorough() {
		return 3
	}
	return 2
}

func HarnessC11_Hooks() {
	vfBound("items", c11MaxItems())
	vfLoopBound(80)
	tds, _ := hNewConn(512)
	ch := hNewChannel(tds, 0)
	nh := vfPick("hooks", 0, 2)
	eedLogs := make([][]c11EedLog, nh)
	envLogs := make([][]c11EnvLog, nh)
	for h := 0; h < nh; h++ {
		h := h
		vfAssert(ch.RegisterEEDHooks(func(p EEDPackage) {
			eedLogs[h] = append(eedLogs[h], c11EedLog{p.MsgNumber, len(ch.packageCh)})
		}) == nil, "hook registration succeeds")
		vfAssert(ch.RegisterEnvChangeHooks(func(t EnvChangeType, o, n string) {
			envLogs[h] = append(envLogs[h], c11EnvLog{t, o, n})
		}) == nil, "hook registration succeeds")
	}
	r := &hResp{}
	e := c11Response(r, c11MaxItems())
	hDeliver(ch, r.b, c03Cut())
	for h := 0; h < nh; h++ {
		vfAssert(len(eedLogs[h]) == len(e.eeds), "every non-informational message reaches every hook exactly once")
		if len(eedLogs[h]) == len(e.eeds) {
			for i := range e.eeds {
				vfAssert(eedLogs[h][i].msgNr == e.eeds[i], "messages reach the hook in arrival order")
				vfAssert(eedLogs[h][i].queued == e.eedPos[i], "hook runs before the message and any later package is queued")
			}
		}
		vfAssert(len(envLogs[h]) == len(e.envs), "every environment change reaches every hook exactly once")
		if len(envLogs[h]) == len(e.envs) {
			for i := range e.envs {
				vfAssert(envLogs[h][i].typ == e.envs[i].typ && envLogs[h][i].old == e.envs[i].old && envLogs[h][i].new == e.envs[i].new, "environment change reported with type, old and new value")
			}
		}
	}
	vfAssert(tds.PacketSize() == e.packSize, "announced packet size applied")
	pkgs, errs := hDrain(ch)
	vfAssert(len(errs) == 0, "no channel error for a well-formed response")
	vfAssert(len(pkgs) == e.deliver+1, "only deliverable packages are queued (no informational message, no environment change)")
	for _, p := range pkgs {
		if eed, ok := p.(*EEDPackage); ok {
			vfAssert(eed.Status&TDS_EED_INFO == 0, "informational messages never reach the consumer")
		}
		_, isEnv := p.(*EnvChangePackage)
		vfAssert(!isEnv, "environment changes never reach the consumer")
	}
	vfObserve("deliver", e.deliver)
	vfReach("end")
}

var errC11Callback = errors.New("harness: callback failed")

// a failing callback: the error carries every message of the response, in
// order, and still matches the callback's error
func HarnessC11_CallbackError() {
	vfLoopBound(80)
	tds, _ := hNewConn(512)
	ch := hNewChannel(tds, 0)
	r := &hResp{}
	e := c11Response(r, c11MaxItems())
	hDeliver(ch, r.b, c03Cut())
	failAt := vfPick("failAt", 0, 2)
	seen := 0
	_, err := ch.NextPackageUntil(vfNewCtx("consumer"), true, func(pkg Package) (bool, error) {
		seen++
		if seen-1 == failAt {
			return false, errC11Callback
		}
		return isDoneFinal(pkg)
	})
	if seen > failAt {
		vfAssert(err != nil && errors.Is(err, errC11Callback), "error still matches the callback's error")
		// messages the consumer had received when the callback failed
		sofar := e.before[failAt]
		var ee *EEDError
		if sofar > 0 {
			vfAssert(errors.As(err, &ee), "error carries the messages received so far")
		}
		if errors.As(err, &ee) {
			vfAssert(len(ee.EEDPackages) >= sofar && len(ee.EEDPackages) <= len(e.eeds), "all messages received so far, none twice")
			if len(ee.EEDPackages) <= len(e.eeds) {
				for i := range ee.EEDPackages {
					vfAssert(ee.EEDPackages[i].MsgNumber == e.eeds[i], "messages in arrival order")
				}
			}
		}
		vfAssert(len(ch.packageCh) == 0, "response drained")
	}
	vfReach("end")
}

// a hook registered between two responses sees the second response only
func HarnessC11_LateHook() {
	vfLoopBound(80)
	tds, _ := hNewConn(512)
	ch := hNewChannel(tds, 0)
	var early, late []uint32
	ch.RegisterEEDHooks(func(p EEDPackage) { early = append(early, p.MsgNumber) })
	r1 := &hResp{}
	r1.eed(0, 11, "a", "s")
	r1.done(TDS_DONE, 0, 0, 0)
	hDeliver(ch, r1.b, c03Cut())
	hDrain(ch)
	ch.RegisterEEDHooks(func(p EEDPackage) { late = append(late, p.MsgNumber) })
	r2 := &hResp{}
	nr := vfU32("msgnr")
	r2.eed(vfU8("eedstatus")&^byte(TDS_EED_INFO), nr, "b", "s")
	r2.done(TDS_DONE, 0, 0, 0)
	hDeliver(ch, r2.b, c03Cut())
	vfAssert(len(early) == 2 && early[0] == 11 && early[1] == nr, "early hook: both messages, once each, in order")
	vfAssert(len(late) == 1 && late[0] == nr, "late hook: only the later message, once")
	vfReach("end")
}

// environment-change members with empty and non-empty values: each member is
// reported with its own old and new value
func HarnessC11_EnvMembers() {
	vfLoopBound(80)
	tds, _ := hNewConn(512)
	ch := hNewChannel(tds, 0)
	var log []c11EnvLog
	ch.RegisterEnvChangeHooks(func(t EnvChangeType, o, n string) { log = append(log, c11EnvLog{t, o, n}) })
	k := vfPick("members", 1, 3)
	var ms []hEnvMember
	for j := 0; j < k; j++ {
		typ := vfU8("envtype")
		vfAssume(typ != byte(TDS_ENV_PACKSIZE))
		ms = append(ms, hEnvMember{typ: typ, new: vfString("envnew", vfPick("newlen", 0, 2)), old: vfString("envold", vfPick("oldlen", 0, 2))})
	}
	r := &hResp{}
	r.envchange(ms...)
	r.done(TDS_DONE, 0, 0, 0)
	hDeliver(ch, r.b, c03Cut())
	vfAssert(len(log) == k, "every member reported exactly once")
	if len(log) == k {
		for j := range ms {
			vfAssert(byte(log[j].typ) == ms[j].typ && log[j].new == ms[j].new && log[j].old == ms[j].old, "member reported with its own type, old and new value")
		}
	}
	pkgs, errs := hDrain(ch)
	vfAssert(len(errs) == 0 && len(pkgs) == 1, "only the final DONE is delivered")
	vfReach("end")
}
