package tds

import (
	"context"
	"errors"

	"github.com/SAP/go-dblib/asetypes"
)

// C08: login succeeds exactly when the server accepted it (package level: the
// reply packages are queued on the channel exactly as tryParsePackage would
// queue them; their byte-level parsing is the subject of C02/C06/C07).

func c08Channel(encrypt bool) (*Channel, *hConn, *LoginConfig) {
	tds, hc := hNewConn(512)
	caps, _ := NewCapabilityPackage([]RequestCapability{TDS_REQ_LANG}, nil, nil)
	tds.Caps = caps
	tds.odce = aes_256_cbc
	ch := hNewChannel(tds, 0)
	cfg := &LoginConfig{DSN: &Info{}, Hostname: "h", HostProc: "1", AppName: "a", ServName: "s", Language: "l", CharSet: "c"}
	cfg.DSN.Username = "u"
	cfg.DSN.Password = "pw"
	if encrypt {
		cfg.Encrypt = TDS_MSG_SEC_ENCRYPT4
	}
	return ch, hc, cfg
}

func c08Caps(zero bool) *CapabilityPackage {
	p, _ := NewCapabilityPackage(nil, nil, nil)
	if !zero {
		p.SetRequestCapability(TDS_REQ_LANG, true)
		p.SetResponseCapability(TDS_RES_NO_TDSCONTROL, true)
	}
	return p
}

func c08LongBinary(v []byte) FieldData {
	_, d, _ := LookupFieldFmtData(asetypes.LONGBINARY)
	d.SetValue(v)
	return d
}

func c08Int4(v int32) FieldData {
	_, d, _ := LookupFieldFmtData(asetypes.INT4)
	d.SetValue(v)
	return d
}

func c08Fmts(n int) *ParamFmtPackage {
	var fs []FieldFmt
	for i := 0; i < n; i++ {
		f, _ := LookupFieldFmt(asetypes.LONGBINARY)
		fs = append(fs, f)
	}
	return NewParamFmtPackage(false, fs...)
}

// plain flow: LOGINACK(status) DONE(status)
func HarnessC08_PlainFields() {
	vfLoopBound(200)
	ch, _, cfg := c08Channel(false)
	ack := LoginAckStatus(vfU8("ackstatus"))
	st := DoneState(vfU16("donestatus"))
	ch.packageCh <- &LoginAckPackage{Status: ack}
	ch.packageCh <- &DonePackage{Status: st}
	err := ch.Login(vfNewCtx("login"), cfg)
	valid := ack == TDS_LOG_SUCCEED && st == TDS_DONE_FINAL
	vfAssert((err == nil) == valid, "login succeeds exactly for success acknowledgement and final DONE")
	vfObserve("ok", err == nil)
	vfReach("end")
}

type c08Enc struct {
	ack1                         LoginAckStatus
	msgID                        TDSMsgId
	nFmts, nParams               int
	asym                         int32
	firstIsInt, keyIsBin, nonBin bool
	goodKey                      bool
	ack2                         LoginAckStatus
	capsZero                     bool
	final                        DoneState
}

func (e *c08Enc) valid() bool {
	return e.ack1 == TDS_LOG_NEGOTIATE && e.msgID == TDS_MSG_SEC_ENCRYPT4 && e.nFmts == 3 && e.nParams == 3 && e.firstIsInt && e.asym == 1 &&
		e.keyIsBin && e.nonBin && e.goodKey && e.ack2 == TDS_LOG_SUCCEED && !e.capsZero && e.final == TDS_DONE_FINAL
}

func (e *c08Enc) script() []Package {
	var params []FieldData
	if e.firstIsInt {
		params = append(params, c08Int4(e.asym))
	} else {
		params = append(params, c08LongBinary([]byte{1}))
	}
	key := hGoodKey
	if !e.goodKey {
		key = []byte("not a key")
	}
	if e.keyIsBin {
		params = append(params, c08LongBinary(key))
	} else {
		params = append(params, c08Int4(7))
	}
	if e.nonBin {
		params = append(params, c08LongBinary([]byte{9, 9}))
	} else {
		params = append(params, c08Int4(7))
	}
	for len(params) < e.nParams {
		params = append(params, c08Int4(0))
	}
	params = params[:e.nParams]
	return []Package{
		&LoginAckPackage{Status: e.ack1},
		&MsgPackage{Status: TDS_MSG_HASARGS, MsgId: e.msgID},
		c08Fmts(e.nFmts),
		NewParamsPackage(params...),
		&DonePackage{Status: TDS_DONE_FINAL},
		&LoginAckPackage{Status: e.ack2},
		c08Caps(e.capsZero),
		&DonePackage{Status: e.final},
	}
}

// encrypted flow with every checked field symbolic, one group at a time
func HarnessC08_EncryptFields() {
	vfLoopBound(400)
	e := &c08Enc{ack1: TDS_LOG_NEGOTIATE, msgID: TDS_MSG_SEC_ENCRYPT4, nFmts: 3, nParams: 3, asym: 1, firstIsInt: true, keyIsBin: true, nonBin: true, goodKey: true, ack2: TDS_LOG_SUCCEED, final: TDS_DONE_FINAL}
	switch vfPick("group", 0, 6) {
	case 0:
		e.ack1 = LoginAckStatus(vfU8("ack1"))
	case 1:
		e.msgID = TDSMsgId(vfU16("msgid"))
	case 2:
		e.nFmts = vfPick("nfmts", 0, 4)
	case 3:
		e.nParams = vfPick("nparams", 1, 4)
		e.firstIsInt, e.keyIsBin, e.nonBin = vfBool("p0"), vfBool("p1"), vfBool("p2")
	case 4:
		e.asym = vfI32("asym")
		e.goodKey = vfBool("goodkey")
	case 5:
		e.ack2 = LoginAckStatus(vfU8("ack2"))
		e.capsZero = vfBool("capszero")
	default:
		e.final = DoneState(vfU16("final"))
	}
	ch, _, cfg := c08Channel(true)
	for _, p := range e.script() {
		ch.packageCh <- p
	}
	err := ch.Login(vfNewCtx("login"), cfg)
	vfAssert((err == nil) == e.valid(), "encrypted login succeeds exactly for the valid reply script")
	if err == nil {
		vfAssert(ch.tdsConn.Caps.HasRequestCapability(TDS_REQ_LANG) && ch.tdsConn.Caps.HasResponseCapability(TDS_RES_NO_TDSCONTROL), "after success the capability set is the server's")
		vfAssert(len(ch.packageCh) == 0, "the reply is fully consumed")
	}
	vfObserve("ok", err == nil)
	vfReach("end")
}

// structure: the valid script with one package deleted or replaced by another kind
func HarnessC08_Structure() {
	vfLoopBound(400)
	e := &c08Enc{ack1: TDS_LOG_NEGOTIATE, msgID: TDS_MSG_SEC_ENCRYPT4, nFmts: 3, nParams: 3, asym: 1, firstIsInt: true, keyIsBin: true, nonBin: true, goodKey: true, ack2: TDS_LOG_SUCCEED, final: TDS_DONE_FINAL}
	s := e.script()
	i := vfPick("index", 0, 7)
	edit := vfPick("edit", 0, 2)
	other := []Package{&ReturnStatusPackage{}, &DonePackage{Status: TDS_DONE_FINAL}, &LoginAckPackage{Status: TDS_LOG_FAIL}}[vfPick("other", 0, 2)]
	var script []Package
	switch edit {
	case 0: // delete
		script = append(append(script, s[:i]...), s[i+1:]...)
	case 1: // replace
		script = append(append(append(script, s[:i]...), other), s[i+1:]...)
	default: // insert before
		script = append(append(append(script, s[:i]...), other), s[i:]...)
	}
	ch, _, cfg := c08Channel(true)
	for _, p := range script {
		ch.packageCh <- p
	}
	// the reply ends here: the caller's deadline expires while Login waits for more
	ctx := vfCtxDeadlineWhileWaiting()
	err := ch.Login(ctx, cfg)
	// Known finding F-C08-extra-packages-tolerated: packages other than LOGINACK between
	// the negotiation DONE and the second LOGINACK are skipped instead of rejected
	vfKnown("F-C08-extra-packages-tolerated", edit == 2 && (i == 5 || (i == 4 && vfIsDone(other))))
	// replacing a DONE by the (final) DONE of the alternatives, or inserting one right before
	// the last DONE, leaves a script whose consumed prefix is the valid acceptance
	sameKind := (edit == 1 && (i == 4 || i == 7) && vfIsDone(other)) || (edit == 2 && i == 7 && vfIsDone(other))
	if !sameKind {
		vfAssert(err != nil, "a reply script that is not the valid one yields an error")
	}
	vfReach("end")
}

func vfIsDone(p Package) bool { _, ok := p.(*DonePackage); return ok }

// a reply that stops early: Login returns an error wrapping the context's error
func HarnessC08_Expiry() {
	vfLoopBound(400)
	e := &c08Enc{ack1: TDS_LOG_NEGOTIATE, msgID: TDS_MSG_SEC_ENCRYPT4, nFmts: 3, nParams: 3, asym: 1, firstIsInt: true, keyIsBin: true, nonBin: true, goodKey: true, ack2: TDS_LOG_SUCCEED, final: TDS_DONE_FINAL}
	s := e.script()
	n := vfPick("replies", 0, 7)
	ch, _, cfg := c08Channel(true)
	for _, p := range s[:n] {
		ch.packageCh <- p
	}
	err := ch.Login(vfCtxDeadlineWhileWaiting(), cfg)
	vfAssert(err != nil, "an incomplete reply yields an error at the latest when the context expires")
	vfAssert(errors.Is(err, context.DeadlineExceeded), "the error wraps the context's error")
	vfReach("end")
}

// C10 (vi): rsaEncrypt with arbitrary key bytes never panics
func HarnessC10_RsaEncryptKey() {
	vfLoopBound(600)
	n := vfPick("keylen", 0, 3)
	key := vfBytes("key", n)
	if vfBool("goodkey") {
		key = hGoodKey
	}
	_, err := rsaEncrypt(key, []byte{1, 2}, []byte("pw"))
	if n > 0 && !hBytesEq(key, hGoodKey) {
		vfAssert(err != nil, "an unusable key is an error")
	}
	vfReach("end")
}
