package tds

import (
	"io"
	"sync"
)

// hConn is the transport stub: it records every Write call and serves reads
// from a script.
type hConn struct {
	writes  [][]byte
	closed  bool
	failAt  int // Write call number (1-based) that fails; 0 = never
	nwrites int
	read    func(p []byte) (int, error)
	onWrite func(p []byte)
}

type hErr struct{ s string }

func (e *hErr) Error() string { return e.s }

var errHWrite = &hErr{"harness: transport write failed"}
var errHRead = &hErr{"harness: transport read failed"}

func (c *hConn) Write(p []byte) (int, error) {
	c.nwrites++
	if c.failAt != 0 && c.nwrites == c.failAt {
		return 0, errHWrite
	}
	c.writes = append(c.writes, append([]byte{}, p...))
	if c.onWrite != nil {
		c.onWrite(p)
	}
	return len(p), nil
}
func (c *hConn) Read(p []byte) (int, error) {
	if c.read == nil {
		return 0, errHRead
	}
	return c.read(p)
}
func (c *hConn) Close() error { c.closed = true; return nil }

// hNewConn builds a Conn around the stub without dialling.
func hNewConn(packetSize int) (*Conn, *hConn) {
	hc := &hConn{}
	ctx, cancel := vfCtxWithCancel(vfNewCtx("root"))
	tds := &Conn{
		conn:            hc,
		info:            &Info{ChannelPackageQueueSize: 100, PacketReadTimeout: 50},
		packetSize:      packetSize,
		ctx:             ctx,
		ctxCancel:       cancel,
		tdsChannels:     map[int]*Channel{},
		tdsChannelsLock: &sync.RWMutex{},
		// (NewConn uses capacity 10; a smaller queue only makes the reader goroutine
		// park earlier once the transport keeps failing)
		errCh: make(chan error, 3),
	}
	return tds, hc
}

// hNewChannel builds a channel the way Conn.NewChannel does, without the
// setup handshake.
func hNewChannel(tds *Conn, id int) *Channel {
	ch := &Channel{
		tdsConn:            tds,
		channelId:          id,
		envChangeHooks:     []EnvChangeHook{},
		envChangeHooksLock: &sync.Mutex{},
		eedHooks:           []EEDHook{},
		eedHooksLock:       &sync.Mutex{},
		CurrentHeaderType:  TDS_BUF_NORMAL,
		queueRx:            NewPacketQueue(tds.PacketSize),
		queueTx:            NewPacketQueue(tds.PacketSize),
		packageCh:          make(chan Package, tds.info.ChannelPackageQueueSize),
		errCh:              make(chan error, 10),
	}
	tds.tdsChannels[id] = ch
	return ch
}

// rawPkg is a package whose encoding is an arbitrary byte string.
type rawPkg struct{ data []byte }

func (p *rawPkg) ReadFrom(ch BytesChannel) error { return nil }
func (p *rawPkg) WriteTo(ch BytesChannel) error  { return ch.WriteBytes(p.data) }
func (p *rawPkg) String() string                 { return "rawPkg" }

// hHeader is an independent decoder of the 8-byte packet header.
type hHeader struct {
	msgType, status byte
	length, channel int
	packetNr, window byte
}

func hParseHeader(w []byte) hHeader {
	w = w[:PacketHeaderSize]
	return hHeader{
		msgType: w[0], status: w[1],
		length:  int(w[2])<<8 | int(w[3]),
		channel: int(w[4])<<8 | int(w[5]),
		packetNr: w[6], window: w[7],
	}
}

// hStream serves a byte string through Read calls of arbitrary sizes and then
// ends the way `end` says.
type hStream struct {
	data   []byte
	pos    int
	end    int // 0: (0, io.EOF) forever; 1: (0, errHRead); 2: last chunk together with io.EOF; 3: last chunk together with errHRead
	reads  int
	maxChunks int
	pickChunks bool // chunk sizes case-split over a few values instead of symbolic
}

func (s *hStream) Read(p []byte) (int, error) {
	s.reads++
	rest := len(s.data) - s.pos
	if rest == 0 || len(p) == 0 {
		if rest == 0 {
			if s.end == 1 {
				return 0, errHRead
			}
			return 0, io.EOF
		}
		return 0, nil
	}
	n := rest
	if len(p) < n {
		n = len(p)
	}
	if s.reads <= s.maxChunks {
		// the transport may hand over any non-empty part of what is available
		c := 0
		if s.pickChunks {
			c = []int{1, 3, 8, 70000}[vfPick("chunksel", 0, 3)]
		} else {
			c = vfInt("chunk", 1, 70000)
		}
		if c < n {
			n = c
		}
	}
	copy(p, s.data[s.pos:s.pos+n])
	s.pos += n
	if s.pos == len(s.data) && s.end == 2 {
		return n, io.EOF
	}
	if s.pos == len(s.data) && s.end == 3 {
		return n, errHRead
	}
	return n, nil
}

func errIOEOF() error { return io.EOF }

// hPacketise encodes a response as one or two packets on the wire (independent
// header encoder); ends[i] is the wire offset at which packet i is complete.
func hPacketise(resp []byte, cut int) (wire []byte, ends []int) {
	parts := [][]byte{resp}
	if cut > 0 && cut < len(resp) {
		parts = [][]byte{resp[:cut], resp[cut:]}
	}
	for i, p := range parts {
		l := PacketHeaderSize + len(p)
		st := byte(0)
		if i == len(parts)-1 {
			st = byte(TDS_BUFSTAT_EOM)
		}
		wire = append(wire, byte(TDS_BUF_RESPONSE), st, byte(l>>8), byte(l), 0, 0, 0, 0)
		wire = append(wire, p...)
		ends = append(ends, len(wire))
	}
	return
}
