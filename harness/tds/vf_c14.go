package tds

// C14: transport failure yields a clean prefix and then an error.
//
// The reader goroutine runs the real Conn.ReadFrom over a transport that
// serves a packetised response and dies at a case-split byte offset with one
// of four failure kinds; read chunk sizes are symbolic. The consumer calls
// NextPackage(wait=true) until it gets an error.

func c14Response(r *hResp) []int {
	// deliverable packages and a final DONE, values symbolic
	r.retstat(vfU32("v1"))
	r.done(TDS_DONE, vfU16("s1")|uint16(TDS_DONE_MORE), 0, 0)
	if vfThorough() {
		r.retstat(vfU32("v2"))
		r.done(TDS_DONE, 0, 0, 0)
		return []int{5, 9, 5, 9}
	}
	r.done(TDS_DONE, 0, 0, 0)
	return []int{5, 9, 9}
}

// one harness per failure kind (they run in parallel)
func HarnessC14_CrashEOF()        { c14Crash(0) } // reads return (0, io.EOF) from the crash point on
func HarnessC14_CrashErr()        { c14Crash(1) } // reads return (0, err)
func HarnessC14_CrashDataEOF()    { c14Crash(2) } // the last data arrives together with io.EOF
func HarnessC14_CrashDataErr()    { c14Crash(3) } // the last data arrives together with an error

func c14Crash(kind int) {
	vfLoopBound(200)
	vfBound("packets", 2)
	r := &hResp{}
	sizes := c14Response(r)
	// reference: the packages of the undisturbed response
	tdsR, _ := hNewConn(512)
	ref := hNewChannel(tdsR, 0)
	hDeliver(ref, r.b, 0)
	want, _ := hDrain(ref)

	cut := 0
	if vfThorough() {
		cut = []int{0, 5, 9, 14, 20}[vfPick("cutsel", 0, 4)]
	} else {
		cut = []int{0, 9}[vfPick("cutsel", 0, 1)]
	}
	wire, ends := hPacketise(r.b, cut)
	// the crash offset is case-split by the executor (every offset 0..len)
	k := vfPick("crashAt", 0, 44)
	vfAssume(k <= len(wire))
	if k == 0 && kind >= 2 {
		kind -= 2 // nothing to deliver together with the failure
	}
	tds, hc := hNewConn(512)
	ch := hNewChannel(tds, 0)
	chunks := 1
	if vfThorough() {
		chunks = 2
	}
	st := &hStream{data: wire[:k], end: kind, maxChunks: chunks, pickChunks: true}
	hc.read = st.Read
	go tds.ReadFrom()

	ctx := vfNewCtx("consumer")
	got := 0
	var err error
	for i := 0; i < len(want)+2; i++ {
		var pkg Package
		pkg, err = ch.NextPackage(ctx, true)
		if err != nil {
			break
		}
		vfAssert(got < len(want), "never more packages than the response contains")
		if got < len(want) {
			vfAssertDeepEqual(pkg, want[got], "delivered packages are a prefix of the response, with correct values")
		}
		got++
		if fin, _ := isDoneFinal(pkg); fin {
			break // the response is complete; a consumer stops reading here
		}
	}
	if k < len(wire) {
		vfAssert(err != nil, "after the transport failed the consumer gets an error")
		vfAssert(got < len(want), "no final DONE unless the EOM packet was received completely")
	}
	// every package lying in completely received packets is delivered
	if len(ends) == 2 && k >= ends[0] && k < ends[1] {
		// packages wholly inside the first packet: those ending at or before the cut
		off, whole := 0, 0
		for _, s := range sizes {
			off += s
			if off <= cut {
				whole++
			}
		}
		// Known finding F-C14-error-overtakes-package: NextPackage's select chooses at
		// random between a queued package and a queued connection error, so the error
		// can overtake packages that are already queued (they are not lost, only late).
		vfKnown("F-C14-error-overtakes-package", got < whole && len(ch.packageCh) >= whole-got)
		// Known finding F-C14-data-with-error-dropped: the last bytes of the packet
		// arrived together with a non-EOF error and the complete packet is discarded.
		vfKnown("F-C14-data-with-error-dropped", kind == 3 && k == ends[0] && got < whole)
		vfAssert(got >= whole, "every package of a completely received packet is delivered before the error")
	}
	vfObserve("got", got)
	vfReach("end")
}

// a failing write during a request returns an error
func HarnessC14_WriteFails() {
	vfLoopBound(40)
	tds, hc := hNewConn(512)
	ch := hNewChannel(tds, 0)
	hc.failAt = vfPick("failAt", 1, 2)
	m := vfInt("m", 1, 1200)
	err := ch.SendPackage(vfNewCtx("send"), &rawPkg{data: vfBytes("msg", m)})
	if hc.nwrites >= hc.failAt {
		vfAssert(err != nil, "a failed transport write is reported")
	}
	vfReach("end")
}
