package tds

// C02: the received package stream does not depend on fragmentation.
//
// (a) transport -> packets: Packet.ReadFrom over a stream that the transport
//     hands over in arbitrary chunks (splitting header and body anywhere).
// (b) packets -> packages: differential, per leading token: a response of
//     arbitrary bytes is delivered once as a single EOM packet (run A) and once
//     cut into two packets at a case-split position (run B); whenever run A
//     raises no parse error, run B must queue deep-equal packages in the same
//     order and no error either.

func c02N(quick, thorough int) int {
	if vfThorough() {
		return thorough
	}
	return quick
}

// (a)
func HarnessC02_PacketChunks() {
	vfLoopBound(40)
	N := c02N(6, 8)
	vfBound("body-bytes", N)
	vfBound("chunks", 4)
	L := vfInt("bodylen", 0, N)
	hdr := PacketHeader{
		MsgType:  PacketHeaderType(vfU8("msgtype")),
		Status:   PacketHeaderStatus(vfU8("status")),
		Length:   uint16(PacketHeaderSize + L),
		Channel:  vfU16("channel"),
		PacketNr: vfU8("packetnr"),
		Window:   vfU8("window"),
	}
	vfAssume(hdr.MsgType != TDS_BUF_CLOSE)
	body := vfBytes("body", L)
	stream := []byte{byte(hdr.MsgType), byte(hdr.Status), byte(hdr.Length >> 8), byte(hdr.Length), byte(hdr.Channel >> 8), byte(hdr.Channel), hdr.PacketNr, hdr.Window}
	stream = append(stream, body...)
	// a second packet follows on the wire; it must not be touched
	stream = append(stream, 0x0F, 0x01, 0x00, 0x08, 0, 0, 0, 0)
	st := &hStream{data: stream, maxChunks: 4}
	p := &Packet{}
	n, err := p.ReadFrom(vfNewCtx("conn"), st, 5)
	vfAssert(err == nil, "a packet arriving in pieces is read without error")
	if err == nil {
		vfAssert(int(n) == PacketHeaderSize+L && st.pos == PacketHeaderSize+L, "exactly the packet's bytes are consumed")
		vfAssert(p.Header == hdr, "header fields as sent")
		vfAssert(len(p.Data) == L, "body length as sent")
		k := vfInt("k", 0, N)
		if k < L && k < len(p.Data) {
			vfAssert(p.Data[k] == body[k], "body bytes as sent")
		}
	}
	vfObserve("n", n)
	vfReach("end")
}

// (b)
func c02Diff(prefix []byte, N int, last Package) {
	vfBound("response-bytes", len(prefix)+N)
	vfLoopBound(120)
	vfSeqCap(len(prefix) + N)
	resp := append(append([]byte{}, prefix...), vfBytes("tail", N)...)
	total := len(resp)

	tdsA, _ := hNewConn(512)
	a := hNewChannel(tdsA, 0)
	a.lastPkgRx = last
	vfIgnorePanics(true) // crashes on arbitrary bytes are C10's subject
	hDeliver(a, resp, 0)
	vfIgnorePanics(false)
	pa, ea := hDrain(a)
	vfAssume(len(ea) == 0) // a response the parser itself accepts

	cut := vfPick("cut", 1, total-1)
	tdsB, _ := hNewConn(512)
	b := hNewChannel(tdsB, 0)
	b.lastPkgRx = last
	hDeliver(b, resp, cut)
	pb, eb := hDrain(b)
	vfAssert(len(eb) == 0, "fragmentation raises no error")
	vfAssert(len(pb) == len(pa), "same number of packages, each exactly once")
	if len(pb) == len(pa) {
		for i := range pa {
			vfAssertDeepEqual(pa[i], pb[i], "same packages with the same field values, in the same order")
		}
	}
	vfAssert(tdsA.PacketSize() == tdsB.PacketSize(), "same packet size applied")
	vfObserve("packages", len(pa))
	vfReach("end")
}

func HarnessC02_TokDone()         { c02Diff([]byte{byte(TDS_DONE)}, c02N(10, 12), nil) }
func HarnessC02_TokDoneProc()     { c02Diff([]byte{byte(TDS_DONEPROC)}, c02N(9, 11), nil) }
func HarnessC02_TokDoneInProc()   { c02Diff([]byte{byte(TDS_DONEINPROC)}, c02N(9, 11), nil) }
// (thorough only: fragmentation of EED is also exercised by the C03/C11 responses and by C07)
func HarnessC02T_TokEED()         { c02Diff([]byte{byte(TDS_EED)}, c02N(18, 18), nil) }
func HarnessC02_TokError()        { c02Diff([]byte{byte(TDS_ERROR)}, c02N(10, 12), nil) }
func HarnessC02_TokLoginAck()     { c02Diff([]byte{byte(TDS_LOGINACK)}, c02N(10, 12), nil) }
func HarnessC02_TokMsg()          { c02Diff([]byte{byte(TDS_MSG)}, c02N(6, 8), nil) }
func HarnessC02_TokParamFmt()     { c02Diff([]byte{byte(TDS_PARAMFMT)}, c02N(6, 8), nil) }
func HarnessC02_TokParamFmt2()    { c02Diff([]byte{byte(TDS_PARAMFMT2)}, c02N(8, 10), nil) }
func HarnessC02_TokRowFmt()       { c02Diff([]byte{byte(TDS_ROWFMT)}, c02N(7, 9), nil) }
func HarnessC02_TokRowFmt2()      { c02Diff([]byte{byte(TDS_ROWFMT2)}, c02N(8, 10), nil) }
func HarnessC02_TokCapability()   { c02Diff([]byte{byte(TDS_CAPABILITY)}, c02N(5, 7), nil) }
func HarnessC02_TokEnvChange()    { c02Diff([]byte{byte(TDS_ENVCHANGE)}, c02N(5, 7), nil) }
func HarnessC02_TokOrderBy()      { c02Diff([]byte{byte(TDS_ORDERBY)}, c02N(5, 7), &RowFmtPackage{}) }
func HarnessC02_TokOrderBy2()     { c02Diff([]byte{byte(TDS_ORDERBY2)}, c02N(9, 11), &RowFmtPackage{}) }
func HarnessC02_TokReturnStatus() { c02Diff([]byte{byte(TDS_RETURNSTATUS)}, c02N(6, 8), nil) }
func HarnessC02_TokDynamic()      { c02Diff([]byte{byte(TDS_DYNAMIC)}, c02N(7, 9), nil) }
func HarnessC02_TokDynamic2()     { c02Diff([]byte{byte(TDS_DYNAMIC2)}, c02N(9, 11), nil) }
func HarnessC02_TokCurInfo()      { c02Diff([]byte{byte(TDS_CURINFO)}, c02N(9, 11), nil) }
func HarnessC02_TokCurInfo3()     { c02Diff([]byte{byte(TDS_CURINFO3)}, c02N(13, 15), nil) }
func HarnessC02_TokUnknown()      { c02Diff([]byte{0x01}, c02N(5, 7), nil) }
