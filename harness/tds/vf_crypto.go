package tds

import (
	"crypto/rsa"
	"encoding/pem"
	"errors"
	"math/big"
)

// Deterministic stand-ins for PEM/PKCS#1 parsing, RSA-OAEP and crypto/rand,
// used by the symbolic engine in place of the standard library (natively the
// real functions run). A key is "usable" iff it is exactly hGoodKey; every
// EncryptOAEP call is recorded with its arguments and returns an opaque
// ciphertext that does not depend on the plaintext.

// hGoodKey is a real 1024-bit RSA public key in PKCS#1 PEM form, so that native
// replays behave like the stubs.
var hGoodKey = []byte("-----BEGIN RSA PUBLIC KEY-----\nMIGJAoGBAMawSySJL0k3j4yDhbrUhcOG6Ja7ZyCrN1g9M4HPPZz2C/WAMoFdg1+B\n2exbNPnbl8cpyCzGbJSmMQy0CNjQxRAHXyFMaaH0wMqRj7BVUsSUFEgA3/0CSl4X\nR8dbJUOSRSuzbp2RjCRNzqZ9s3UdLRvT8SSfnaKFFv6Og6dJT0CRAgMBAAE=\n-----END RSA PUBLIC KEY-----\n")

type hOAEPCall struct {
	msg   []byte
	label []byte
	pub   *rsa.PublicKey
}

var (
	hOAEPCalls []hOAEPCall
	hRandCalls int
	hRandFails bool
	hOAEPFailAt int // 1-based number of the EncryptOAEP call that fails (0: none)
	hKeyObj    = &rsa.PublicKey{N: big.NewInt(0), E: 65537}
)

func hBytesEq(a, b []byte) bool {
	if len(a) != len(b) {
		return false
	}
	for i := range a {
		if a[i] != b[i] {
			return false
		}
	}
	return true
}

func vfPemDecode(data []byte) (*pem.Block, []byte) {
	if hBytesEq(data, hGoodKey) {
		return &pem.Block{Type: "RSA PUBLIC KEY", Bytes: []byte{0x30}}, nil
	}
	// not PEM: no block, everything is "rest"
	return nil, data
}

func vfParsePKCS1PublicKey(der []byte) (*rsa.PublicKey, error) {
	if len(der) == 1 && der[0] == 0x30 {
		return hKeyObj, nil
	}
	return nil, errors.New("x509: failed to parse public key")
}

func vfEncryptOAEP(pub *rsa.PublicKey, msg, label []byte) ([]byte, error) {
	hOAEPCalls = append(hOAEPCalls, hOAEPCall{msg: append([]byte{}, msg...), label: label, pub: pub})
	if hOAEPFailAt != 0 && len(hOAEPCalls) == hOAEPFailAt {
		return nil, errors.New("crypto/rsa: message too long for RSA key size")
	}
	// opaque ciphertext, independent of the plaintext, fresh per call
	n := len(hOAEPCalls)
	return []byte{0xC1, 0xFE, byte(n), 0xED}, nil
}

func vfRandRead(b []byte) (int, error) {
	hRandCalls++
	if hRandFails {
		return 0, errors.New("harness: entropy source failed")
	}
	copy(b, vfBytes("random", len(b)))
	return len(b), nil
}
