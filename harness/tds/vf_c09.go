package tds

// C09: passwords never cross the wire in clear when encryption is negotiated.
//
// Two-run non-interference: the same login (configuration, server replies,
// stub outputs) is executed with two different symbolic passwords. Because
// the EncryptOAEP stub returns a ciphertext that does not depend on its
// plaintext, every byte the client writes must be identical in both runs,
// i.e. independent of the secrets. The stub's call log pins what is encrypted.

type c09Run struct {
	writes [][]byte
	calls  []hOAEPCall
	err    error
	rand   int
}

func c09Login(pw, rpw string, encrypt bool, remote bool, stopAt int, goodKey bool) *c09Run {
	hOAEPCalls, hRandCalls = nil, 0
	ch, hc, cfg := c08Channel(encrypt)
	cfg.DSN.Password = pw
	if remote {
		cfg.RemoteServers = []LoginConfigRemoteServer{{Name: "rs", Password: rpw}}
	}
	e := &c08Enc{ack1: TDS_LOG_NEGOTIATE, msgID: TDS_MSG_SEC_ENCRYPT4, nFmts: 3, nParams: 3, asym: 1, firstIsInt: true, keyIsBin: true, nonBin: true, goodKey: goodKey, ack2: TDS_LOG_SUCCEED, final: TDS_DONE_FINAL}
	var script []Package
	if encrypt {
		script = e.script()
	} else {
		script = []Package{&LoginAckPackage{Status: TDS_LOG_SUCCEED}, &DonePackage{}}
	}
	if stopAt < len(script) {
		script = script[:stopAt]
	}
	for _, p := range script {
		ch.packageCh <- p
	}
	err := ch.Login(vfCtxDeadlineWhileWaiting(), cfg)
	return &c09Run{writes: hc.writes, calls: hOAEPCalls, err: err, rand: hRandCalls}
}

func c09PwLen() int {
	if vfThorough() {
		return 5
	}
	return 3
}

func HarnessC09_NonInterference() {
	vfLoopBound(4000)
	vfFixedMapOrder() // the order in which capability masks are written does not involve the secrets
	n1, n2 := vfPick("pw1len", 0, c09PwLen()), vfPick("pw2len", 0, c09PwLen())
	pw1, pw2 := vfString("pw1", n1), vfString("pw2", n2)
	rp1, rp2 := vfString("rpw1", 2), vfString("rpw2", 2)
	remote := vfBool("remote")
	stopAt := vfPick("replies", 4, 8) // also error exits: the reply stops early
	goodKey := vfBool("goodkey")
	// the encryption of the k-th secret may fail (e.g. a secret too long for the key)
	hOAEPFailAt = vfPick("oaepFailAt", 0, 4)
	a := c09Login(pw1, rp1, true, remote, stopAt, goodKey)
	b := c09Login(pw2, rp2, true, remote, stopAt, goodKey)
	vfAssert((a.err == nil) == (b.err == nil), "the outcome does not depend on the secrets")
	vfAssert(len(a.writes) == len(b.writes), "same number of transport writes for any two passwords")
	if len(a.writes) == len(b.writes) {
		for i := range a.writes {
			vfAssert(len(a.writes[i]) == len(b.writes[i]), "same number of bytes written for any two passwords")
			n := len(a.writes[i])
			if len(b.writes[i]) < n {
				n = len(b.writes[i])
			}
			for k := 0; k < n; k++ {
				vfAssert(a.writes[i][k] == b.writes[i][k], "every byte written is independent of the passwords")
			}
		}
	}
	// the login record's password slot is empty: hostname(30+1) username(30+1) password(30+1)
	rec := a.writes[0][PacketHeaderSize:]
	for i := 62; i < 92; i++ {
		vfAssert(rec[i] == 0, "the login record's password slot is zero")
	}
	vfAssert(rec[92] == 0, "the login record's password length is zero")
	if a.err != nil {
		vfAssert(!vfErrMentions(a.err, pw1) && !vfErrMentions(a.err, rp1), "no secret in an error returned by Login")
	}
	vfObserve("writes", len(a.writes))
	vfReach("end")
}

// what is sent instead: nonce followed by the respective secret, one fresh
// encryption per secret, and a 32-byte random session key protected the same way
func HarnessC09_EncryptedPayload() {
	vfLoopBound(600)
	vfFixedMapOrder()
	n := vfPick("pwlen", 0, c09PwLen())
	pw := vfString("pw", n)
	rpw := vfString("rpw", 2)
	remote := vfBool("remote")
	r := c09Login(pw, rpw, true, remote, 99, true)
	vfAssert(r.err == nil, "the valid script logs in")
	want := 2 // password of the login itself is also sent as first 'remote server'
	if remote {
		want = 3
	}
	vfAssert(len(r.calls) == want+1, "one encryption per secret plus one for the session key")
	nonce := []byte{9, 9}
	check := func(c hOAEPCall, secret string, what string) {
		vfAssert(len(c.msg) == len(nonce)+len(secret), what+": plaintext is nonce followed by the secret")
		if len(c.msg) == len(nonce)+len(secret) {
			vfAssert(c.msg[0] == 9 && c.msg[1] == 9, what+": the server's nonce comes first")
			for i := 0; i < len(secret); i++ {
				vfAssert(c.msg[2+i] == secret[i], what+": followed by the secret")
			}
		}
		vfAssert(len(c.label) == 0 && c.pub == hKeyObj, what+": empty label, the server's key")
	}
	if len(r.calls) == want+1 {
		check(r.calls[0], pw, "password")
		check(r.calls[1], pw, "first remote entry (the login password)")
		if remote {
			check(r.calls[2], rpw, "remote server password")
		}
		key := r.calls[want]
		vfAssert(len(key.msg) == 2+32 && r.rand == 1, "the session key is 32 bytes from one crypto/rand read")
	}
	vfReach("end")
}

// control: without encryption the password does travel in its slot (the oracle above is not vacuous)
func HarnessC09_ControlPlain() {
	vfLoopBound(600)
	pw := vfString("pw", 2)
	r := c09Login(pw, "", false, false, 99, true)
	vfAssert(r.err == nil, "plain login succeeds")
	rec := r.writes[0][PacketHeaderSize:]
	vfAssert(rec[62] == pw[0] && rec[63] == pw[1] && rec[92] == 2, "plain flow: the password is in its slot (control)")
	vfReach("end")
}
