package dsn

import "unicode/utf8"

// C17 (simple key=value form): FormatSimple/ParseSimple round-trip, later
// occurrence of a key or alias overrides, unknown keys are rejected, and no
// input makes ParseSimple panic.
//
// The two reflection helpers dsn.TagToField and dsn.setValue are replaced by
// engine stubs that derive the key table from the static struct tags by the
// rules of dsn/tagToField.go (see engine/reflectstub.go); the stubs are
// cross-checked against the real functions by the native witness runs. The
// tokenizer of ParseSimple and FormatSimple itself are executed from the
// repository's SSA.

type c17Inner struct {
	Database string `json:"database" multiref:"db"`
	TLS      bool   `json:"tls" multiref:"ssl,secure"`
}

type c17Named struct {
	Retries int `json:"retries" multiref:"tries"`
}

type c17Info struct {
	Host string `json:"host" multiref:"hostname,h"`
	Port int    `json:"port"`
	c17Inner
	Extra  c17Named
	hidden string
	NoTag  string
	Opt    string `json:"opt,omitempty"`
}

func c17MaxLen() int {
	if vfThorough() {
		return 12
	}
	return 9
}

// no input string whatsoever makes parsing panic
func HarnessC17_SimpleTotality() {
	vfBound("dsn bytes", c17MaxLen())
	vfLoopBound(64)
	vfFixedMapOrder()
	n := vfPick("n", 0, c17MaxLen())
	s := vfString("dsn", n)
	var out c17Info
	err := ParseSimple(s, &out)
	vfObserve("err", err != nil)
	vfObserve("host", out.Host)
	vfObserve("port", out.Port)
	vfObserve("db", out.Database)
	vfObserve("tls", out.TLS)
	vfObserve("retries", out.Extra.Retries)
	vfObserve("opt", out.Opt)
	vfReach("end")
}

// keys and aliases of c17Info, by field
var c17Keys = [][]string{
	{"host", "hostname", "h"},
	{"database", "db"},
	{"opt"},
}

func c17IsKey(k string) bool {
	switch k {
	case "host", "hostname", "h", "port", "database", "db", "tls", "ssl", "secure", "retries", "tries", "opt":
		return true
	}
	return false
}

// keys that match no field are rejected with an error
func HarnessC17_SimpleUnknownKey() {
	vfBound("key bytes", 4)
	vfLoopBound(64)
	vfFixedMapOrder()
	key := vfString("key", vfPick("klen", 0, 4))
	for i := 0; i < len(key); i++ {
		// the key is what stands before the first '=' of a space-separated part
		vfAssume(key[i] != ' ' && key[i] != '=')
	}
	val := vfString("val", vfPick("vlen", 0, 2))
	for i := 0; i < len(val); i++ {
		vfAssume(val[i] != ' ' && val[i] != '"' && val[i] != '\'')
	}
	var out c17Info
	err := ParseSimple(key+"="+val, &out)
	if !c17IsKey(key) {
		vfAssert(err != nil, "unknown key rejected")
		vfAssert(out == c17Info{}, "unknown key sets nothing")
	} else {
		vfReach("known key")
	}
	vfReach("end")
}

func c17Text(name string, max int) string {
	s := vfString(name, vfPick(name+"len", 0, max))
	for i := 0; i < len(s); i++ {
		// documented alphabet: no quotes, backslashes, control characters; ASCII here
		vfAssume(s[i] >= 0x20 && s[i] < 0x7F && s[i] != '"' && s[i] != '\'' && s[i] != '\\')
	}
	return s
}

// a later occurrence of a key or of one of its aliases overrides an earlier one
func HarnessC17_SimpleOverride() {
	vfBound("value bytes", 2)
	vfLoopBound(64)
	vfFixedMapOrder()
	f := vfPick("field", 0, len(c17Keys)-1)
	k1 := c17Keys[f][vfPick("k1", 0, len(c17Keys[f])-1)]
	k2 := c17Keys[f][vfPick("k2", 0, len(c17Keys[f])-1)]
	v1, v2 := c17Text("v1", 2), c17Text("v2", 2)
	var out c17Info
	err := ParseSimple(k1+"=\""+v1+"\" "+k2+"=\""+v2+"\"", &out)
	vfAssert(err == nil, "override parses")
	var got string
	switch f {
	case 0:
		got = out.Host
	case 1:
		got = out.Database
	case 2:
		got = out.Opt
	}
	vfAssert(got == v2, "later occurrence wins")
	vfReach("end")
}

func c17TextMax() int {
	if vfThorough() {
		return 3
	}
	return 3
}

// FormatSimple then ParseSimple yields the same field values
func HarnessC17_SimpleRoundTrip() {
	vfBound("text bytes per field", c17TextMax())
	vfBound("int digits", 4)
	vfLoopBound(64)
	vfFixedMapOrder()
	var in c17Info
	in.Host = c17Text("host", c17TextMax())
	in.Database = c17Text("db", 2)
	in.Port = vfInt("port", -9999, 9999)
	in.TLS = vfBool("tls")
	in.Extra.Retries = vfInt("retries", -9, 9)
	s := FormatSimple(&in)
	vfObserve("formatted", s)
	var out c17Info
	err := ParseSimple(s, &out)
	vfAssert(err == nil, "formatted description parses")
	vfAssert(out == in, "round trip")
	vfReach("end")
}

func c17URIMax() int {
	if vfThorough() {
		return 3
	}
	return 2
}

// no input string whatsoever makes parsing panic: URI form (after "x://")
func HarnessC17_URITotality() {
	vfBound("uri bytes after scheme", c17URIMax())
	vfLoopBound(64)
	vfFixedMapOrder()
	n := vfPick("n", 0, c17URIMax())
	u := vfString("uri", n)
	for i := 0; i < len(u); i++ {
		vfAssume(u[i] < 0x80) // ASCII alphabet (stated bound)
	}
	s := "a://" + u
	var out Info
	err := Parse(s, &out)
	vfObserve("err", err != nil)
	vfObserve("host", out.Host)
	vfObserve("port", out.Port)
	vfObserve("user", out.Username)
	vfObserve("pass", out.Password)
	vfObserve("db", out.Database)
	vfReach("end")
}

type c17URI struct {
	Info
	Prop string `json:"prop"`
	Flag bool   `json:"flag"`
	Num  int    `json:"num"`
}

// FormatURI then Parse yields the same field values: one field at a time
// carries arbitrary bytes (all 256 values), the others are fixed
func c17URIRoundTrip(f, max int) {
	vfBound("arbitrary bytes in the varied field", max)
	vfLoopBound(64)
	vfFixedMapOrder()
	in := c17URI{Info: Info{Host: "h", Port: "1", Username: "u", Password: "p", Database: "d"}, Prop: "x"}
	switch f {
	case 0:
		in.Username = vfString("user", vfPick("len", 0, max))
	case 1:
		in.Password = vfString("pass", vfPick("len", 0, max))
	case 2:
		in.Database = vfString("db", vfPick("len", 0, max))
	case 3:
		in.Prop = vfString("prop", vfPick("len", 0, max))
	case 4:
		in.Flag = vfBool("flag")
		in.Num = vfInt("num", -999, 999)
	}
	s, err := FormatURI(&in)
	vfAssert(err == nil, "formats")
	vfObserve("formatted", s)
	var out c17URI
	err = Parse("a:"+s, &out)
	vfAssert(err == nil, "formatted URI parses")
	vfAssert(out == in, "URI round trip")
	vfReach("end")
}

func HarnessC17_URIRoundTrip() { c17URIRoundTrip(vfPick("field", 0, 4), 1) }

// thorough: two arbitrary bytes, one harness per field (they run in parallel)
func HarnessC17T_URIRoundTripUser() { c17URIRoundTrip(0, 2) }
func HarnessC17T_URIRoundTripPass() { c17URIRoundTrip(1, 2) }
func HarnessC17T_URIRoundTripDb()   { c17URIRoundTrip(2, 2) }
func HarnessC17T_URIRoundTripProp() { c17URIRoundTrip(3, 2) }

func c17Letters(name string, max int) string {
	s := vfString(name, vfPick(name+"len", 0, max))
	for i := 0; i < len(s); i++ {
		vfAssume(s[i] >= 'A' && s[i] <= 'Z')
	}
	return s
}

// FormatURI then Parse over texts of upper-case letters in all four free-text
// positions at once (no escaping involved, so longer texts are affordable)
func HarnessC17_URIRoundTripLetters() {
	vfBound("letters per field", 4)
	vfLoopBound(64)
	vfFixedMapOrder()
	in := c17URI{Info: Info{Host: "h", Port: "1"}}
	in.Username = c17Letters("user", 2)
	in.Password = c17Letters("pass", 2)
	in.Database = c17Letters("db", 4)
	in.Prop = c17Letters("prop", 4)
	s, err := FormatURI(&in)
	vfAssert(err == nil, "formats")
	vfObserve("formatted", s)
	var out c17URI
	err = Parse("a:"+s, &out)
	vfAssert(err == nil, "formatted URI parses")
	vfAssert(out == in, "URI round trip")
	vfReach("end")
}

func c17Lower(name string, max int) string {
	s := vfString(name, vfPick(name+"len", 0, max))
	for i := 0; i < len(s); i++ {
		vfAssume(s[i] >= 'a' && s[i] <= 'z')
	}
	return s
}

// URI form: the last value of a repeated key (or alias) wins; keys that match
// no field are rejected
func HarnessC17_URIQueryKeys() {
	vfBound("letters per key", 4)
	vfLoopBound(64)
	vfFixedMapOrder()
	k1, k2 := c17Lower("k1", 4), c17Lower("k2", 4)
	v1, v2 := c17Letters("v1", 2), c17Letters("v2", 2)
	vfAssume(len(k1) > 0 && len(k2) > 0)
	var out c17URI
	err := Parse("a://h:1/?"+k1+"="+v1+"&"+k2+"="+v2, &out)
	isKey := func(k string) bool {
		switch k {
		case "host", "port", "user", "pass", "db", "prop", "flag", "num":
			return true
		}
		return false
	}
	if !isKey(k1) || !isKey(k2) {
		vfAssert(err != nil, "unknown query key rejected")
	} else if k1 == "db" && k2 == "db" {
		vfAssert(err == nil, "repeated key parses")
		vfAssert(out.Database == v2, "last value of a repeated key wins")
	} else {
		vfReach("known keys")
	}
	vfReach("end")
}

func c17QueryMax() int {
	if vfThorough() {
		return 4
	}
	return 3
}

// no query string makes ParseURI panic
func HarnessC17_URIQueryTotality() {
	vfBound("query bytes", c17QueryMax())
	vfLoopBound(64)
	vfFixedMapOrder()
	q := vfString("q", vfPick("n", 0, c17QueryMax()))
	for i := 0; i < len(q); i++ {
		vfAssume(q[i] < 0x80)
	}
	var out c17URI
	err := Parse("a://h:1/?"+q, &out)
	vfObserve("err", err != nil)
	vfObserve("host", out.Host)
	vfObserve("prop", out.Prop)
	vfReach("end")
}

// translator validation of the engine's string-range (UTF-8) model: for every
// string of up to 3 (quick) / 4 (thorough) bytes, `range` yields what the real unicode/utf8 code (executed from
// its SSA) decodes at the same position
func HarnessC17_EngineRuneModel() {
	max := 3
	if vfThorough() {
		max = 4
	}
	vfBound("string bytes", max)
	vfLoopBound(16)
	s := vfString("s", vfPick("n", 0, max))
	next := 0
	for i, r := range s {
		vfAssert(i == next, "range position")
		want, w := utf8.DecodeRuneInString(s[i:])
		vfAssert(r == want, "range rune equals utf8.DecodeRuneInString")
		next = i + w
	}
	vfAssert(next == len(s), "range covers the string")
	vfReach("end")
}
