package asetypes

// UNITEXT: Go strings <-> UTF-16LE (C04 round trip, C05 layout). The reference
// encoder/decoder below is written from the UTF-16 definition and does not use
// unicode/utf16.

func c04uMax() int {
	if vfThorough() {
		return 6
	}
	return 4
}

// reference: UTF-16 code units of a string (invalid UTF-8 decodes to U+FFFD, as
// Go's range does)
func c04uUnits(s string) []uint16 {
	var us []uint16
	for _, r := range s {
		switch {
		case r >= 0x10000:
			r -= 0x10000
			us = append(us, uint16(0xD800+(r>>10)), uint16(0xDC00+(r&0x3FF)))
		default:
			us = append(us, uint16(r))
		}
	}
	return us
}

func c04uValid(s string) bool {
	// valid UTF-8: ranging re-encodes to the same bytes; approximated by "no U+FFFD
	// produced unless written as EF BF BD"
	for i, r := range s {
		if r == 0xFFFD && !(i+2 < len(s) && s[i] == 0xEF && s[i+1] == 0xBF && s[i+2] == 0xBD) {
			return false
		}
	}
	return true
}

// C05: a string encodes to its UTF-16LE code units
func HarnessC05_UnitextEncodeLayout() {
	vfBound("string bytes", c04uMax())
	vfLoopBound(40)
	s := vfString("s", vfPick("n", 1, c04uMax()))
	vfAssume(c04uValid(s))
	bs, err := UNITEXT.Bytes(le, s, 0)
	vfAssert(err == nil, "encoding succeeds")
	us := c04uUnits(s)
	vfAssert(len(bs) == 2*len(us), "C05: two bytes per UTF-16 code unit")
	for i := 0; i < len(us) && 2*i+1 < len(bs); i++ {
		vfAssert(bs[2*i] == byte(us[i]) && bs[2*i+1] == byte(us[i]>>8), "C05: unitext is UTF-16LE")
	}
	vfReach("end")
}

// C05: UTF-16LE bytes from the server decode to the text they encode
func HarnessC05_UnitextDecodeLayout() {
	vfBound("code units", 2)
	vfLoopBound(40)
	n := vfPick("units", 1, 2)
	raw := vfBytes("raw", 2*n)
	u0 := uint16(raw[0]) | uint16(raw[1])<<8
	var want string
	if n == 1 {
		vfAssume(u0 < 0xD800 || u0 > 0xDFFF)
		vfAssume(u0 != 0)
		want = string(rune(u0))
	} else {
		u1 := uint16(raw[2]) | uint16(raw[3])<<8
		vfAssume(u1 != 0)
		if u0 >= 0xD800 && u0 <= 0xDBFF {
			vfAssume(u1 >= 0xDC00 && u1 <= 0xDFFF)
			want = string(rune(0x10000 + (int(u0)-0xD800)<<10 + (int(u1) - 0xDC00)))
		} else {
			vfAssume(u0 < 0xD800 || u0 > 0xDFFF)
			vfAssume(u1 < 0xD800 || u1 > 0xDFFF)
			want = string(rune(u0)) + string(rune(u1))
		}
	}
	val, err := UNITEXT.GoValue(le, raw)
	vfAssert(err == nil, "decoding succeeds")
	got, ok := val.(string)
	vfAssert(ok, "decodes to a string")
	vfAssert(got == want, "C05: unitext decodes as UTF-16LE")
	vfReach("end")
}

// C04: text survives encoding and decoding (valid UTF-8 without trailing NUL,
// which GoValue trims by design)
func HarnessC04_UnitextRoundTrip() {
	vfBound("string bytes", c04uMax())
	vfLoopBound(40)
	s := vfString("s", vfPick("n", 1, c04uMax()))
	vfAssume(c04uValid(s))
	vfAssume(s[len(s)-1] != 0)
	bs, err := UNITEXT.Bytes(le, s, 0)
	vfAssert(err == nil, "encoding succeeds")
	val, err := UNITEXT.GoValue(le, bs)
	vfAssert(err == nil, "decoding succeeds")
	got, ok := val.(string)
	vfAssert(ok && got == s, "C04: unitext round trip")
	vfReach("end")
}
