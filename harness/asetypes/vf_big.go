package asetypes

import "math/big"

type bigInt = big.Int

func newBig() *big.Int { return new(big.Int) }

func bigOf(v int64) *big.Int { return big.NewInt(v) }
