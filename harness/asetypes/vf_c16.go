package asetypes

// C16: decimal text conversion preserves the numeric value.
//
// For a precision p and scale s the magnitude is given by p symbolic digits and
// a symbolic sign. Expected texts are computed from the digits by the harness
// (independent of big.Int formatting).

func c16Digits(p int) (digits []byte, neg bool) {
	digits = make([]byte, p)
	for i := range digits {
		digits[i] = byte('0' + vfInt("digit", 0, 9))
	}
	return digits, vfBool("negative")
}

func c16AllZero(ds []byte) bool {
	for _, d := range ds {
		if d != '0' {
			return false
		}
	}
	return true
}

// expected text: optional minus, integer part without leading zeros, point,
// fraction without trailing zeros, at least one digit on each side
func c16Expected(digits []byte, neg bool, p, s int) string {
	left := digits[:p-s]
	for len(left) > 0 && left[0] == '0' {
		left = left[1:]
	}
	right := digits[p-s:]
	for len(right) > 0 && right[len(right)-1] == '0' {
		right = right[:len(right)-1]
	}
	t := ""
	if neg && !c16AllZero(digits) {
		t = "-"
	}
	if len(left) == 0 {
		t += "0"
	} else {
		t += string(left)
	}
	t += "."
	if len(right) == 0 {
		t += "0"
	} else {
		t += string(right)
	}
	return t
}

func c16Format(p, s int) {
	vfLoopBound(400)
	vfBound("precision", p)
	vfBound("scale", s)
	digits, neg := c16Digits(p)
	dec, err := NewDecimal(p, s)
	vfAssert(err == nil, "valid precision/scale accepted")
	num := string(digits)
	if neg {
		num = "-" + num
	}
	_, ok := dec.i.SetString(num, 10)
	vfAssert(ok, "harness: digits parse")
	got := dec.String()
	want := c16Expected(digits, neg, p, s)
	vfAssert(got == want, "String is the exact decimal expansion without superfluous zeros")
	// parsing the text back yields an equal decimal
	back, err := NewDecimalString(p, s, got)
	vfAssert(err == nil, "the formatted text parses")
	if err == nil {
		vfAssert(back.Cmp(*dec), "formatting and parsing back yields an equal decimal")
	}
	vfObserve("text", got)
	vfReach("end")
}

// SetString on a numeral with li integer digits and lf fraction digits
func c16Parse(p, s, li, lf int) {
	vfLoopBound(400)
	ints := make([]byte, li)
	for i := range ints {
		ints[i] = byte('0' + vfInt("idigit", 0, 9))
	}
	frac := make([]byte, lf)
	for i := range frac {
		frac[i] = byte('0' + vfInt("fdigit", 0, 9))
	}
	neg := vfBool("negative")
	text := string(ints)
	if lf > 0 || vfBool("point") {
		text += "." + string(frac)
	}
	if neg {
		text = "-" + text
	}
	if vfBool("spaces") {
		text = " " + text + " "
	}
	dec, err := NewDecimalString(p, s, text)
	// significant integer digits
	sig := li
	for k := 0; k < li && ints[k] == '0'; k++ {
		sig--
	}
	// fraction digits that matter (trailing zeros do not)
	sf := lf
	for sf > 0 && frac[sf-1] == '0' {
		sf--
	}
	if li == 0 {
		// (no integer digits at all is not a numeral the property speaks about)
		vfReach("end")
		return
	}
	if sf <= s && sig <= p-s {
		vfAssert(err == nil, "a representable numeral is accepted")
		if err == nil {
			// exactly that number: unscaled integer = digits * 10^(s-lf)
			want := new(Decimal)
			want.Precision, want.Scale = p, s
			want.i = c16Unscaled(ints, frac, neg, s)
			vfAssert(dec.i.Cmp(want.i) == 0, "parsing yields exactly the number written")
		}
	} else {
		vfAssert(err != nil, "input that cannot be represented is rejected, not silently changed")
	}
	vfReach("end")
}

// unscaled integer of ints.frac at scale s, computed with machine-independent steps
func c16Unscaled(ints, frac []byte, neg bool, s int) *bigInt {
	all := append(append([]byte{}, ints...), frac...)
	for k := len(frac); k < s; k++ {
		all = append(all, '0')
	}
	// more fraction digits than the scale: only trailing zeros may be dropped
	if len(frac) > s {
		all = all[:len(ints)+s]
	}
	v := newBig()
	txt := string(all)
	if neg {
		txt = "-" + txt
	}
	v.SetString(txt, 10)
	return v
}

func HarnessC16_Format_1_0()  { c16Format(1, 0) }
func HarnessC16_Format_1_1()  { c16Format(1, 1) }
func HarnessC16_Format_3_1()  { c16Format(3, 1) }
func HarnessC16_Format_5_5()  { c16Format(5, 5) }
func HarnessC16_Format_6_2()  { c16Format(6, 2) }
func HarnessC16T_Format_9_3() { c16Format(9, 3) }
func HarnessC16T_Format_8_0() { c16Format(8, 0) }
func HarnessC16T_Format_7_7() { c16Format(7, 7) }

func HarnessC16_Parse_5_2_3_2()  { c16Parse(5, 2, 3, 2) }
func HarnessC16_Parse_5_2_3_3()  { c16Parse(5, 2, 3, 3) } // one fraction digit too many
func HarnessC16_Parse_5_2_4_1()  { c16Parse(5, 2, 4, 1) } // one integer digit too many
func HarnessC16_Parse_5_2_2_0()  { c16Parse(5, 2, 2, 0) }
func HarnessC16_Parse_4_4_1_4()  { c16Parse(4, 4, 1, 4) }
func HarnessC16T_Parse_8_3_5_3() { c16Parse(8, 3, 5, 3) }

// construction: accepted iff 0 <= scale <= precision <= 38
func HarnessC16_Construct() {
	p := vfInt("precision", -5, 60)
	s := vfInt("scale", -5, 60)
	dec, err := NewDecimal(p, s)
	if p >= 1 && p <= 38 && s >= 0 && s <= p {
		vfAssert(err == nil && dec != nil, "valid precision/scale accepted")
	}
	if p > 38 || s < 0 || s > p || p < 0 {
		vfAssert(err != nil, "invalid precision/scale combinations are rejected at construction")
	}
	vfObserve("ok", err == nil)
	vfReach("end")
}
