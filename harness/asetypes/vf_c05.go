package asetypes

import (
	"time"

	"github.com/SAP/go-dblib/asetime"
)

// C04/C05 temporal types. Reference constants (independent of the library):
// 1900-01-01 is 25567 days before 1970-01-01; 0001-01-01 is 719162 days before it.

const (
	c05Days1900to1970 = 25567
	c05Days0001to1970 = 719162
	c05MinDay1900     = -693595 // 0001-01-01
	c05MaxDay1900     = 2958463 // 9999-12-31
)

// little-endian value of symbolic bytes, as a mathematical integer
func c05U(raw []byte) int {
	v := 0
	for i := len(raw) - 1; i >= 0; i-- {
		v = v*256 + int(raw[i])
	}
	return v
}

// two's complement interpretation of a 32-bit value
func c05S32(u int) int {
	if u >= 1<<31 {
		return u - 1<<32
	}
	return u
}

// DATE ignores the time of day also before 1900
func HarnessC04_DateWithTimeOfDay() {
	vfLoopBound(200)
	// bounded to the years 1897..1902 around the 1900 epoch (the solver does not decide
	// the full 0001..9999 range within its time limit)
	x := vfInt("days", -1000, 1000)
	secs := vfInt("secs", 0, 86399)
	tm := asetime.Epoch1900().AddDate(0, 0, x).Add(time.Duration(secs) * time.Second)
	bs, err := DATE.Bytes(le, tm, 4)
	vfAssert(err == nil, "encoding succeeds")
	vfAssert(len(bs) == 4 && c05S32(c05U(bs)) == x, "C04: DATE is the calendar day regardless of the time of day")
	vfReach("end")
}

// ---- temporal types, decided per direction against the reference layout ----
// The composed round trip (decode after encode) is beyond the solver; each
// direction against the reference layout is not, and the reference layout is a
// bijection between (day, time-of-day) and byte strings, so the two directions
// together give the round trip of C04 on the clock/calendar fields.

// little-endian value, accumulated from the low end (the engine recombines
// the bytes of one integer written by PutUintNN into that integer)
func c05ULow(raw []byte) int {
	v, mul := 0, 1
	for i := 0; i < len(raw); i++ {
		v += int(raw[i]) * mul
		mul *= 256
	}
	return v
}

// the n low bytes of v, little-endian (two's complement for negative v)
func c05LE(v, n int) []byte {
	bs := make([]byte, n)
	for i := 0; i < n; i++ {
		bs[i] = byte(v >> (8 * uint(i)))
	}
	return bs
}

func c05Clock(tm time.Time) int {
	return tm.Hour()*3600000000000 + tm.Minute()*60000000000 + tm.Second()*1000000000 + tm.Nanosecond()
}

// BIGTIMEN, server -> client: microseconds since midnight
func HarnessC05_BigTimeDecode() {
	vfLoopBound(200)
	raw := vfBytes("raw", 8)
	// microseconds of a day need 37 bits: the upper three bytes are zero
	vfAssume(raw[5] == 0 && raw[6] == 0 && raw[7] == 0)
	us := c05U(raw[:5])
	vfAssume(us <= 86399999999)
	val, err := BIGTIMEN.GoValue(le, raw)
	vfAssert(err == nil, "decoding succeeds")
	tm := val.(time.Time)
	vfAssert(c05Clock(tm) == us*1000, "C05: bigtime is microseconds since midnight")
	vfReach("end")
}

// BIGTIMEN, client -> server
func HarnessC05_BigTimeEncode() {
	vfLoopBound(200)
	h, m, s, us := vfInt("h", 0, 23), vfInt("m", 0, 59), vfInt("s", 0, 59), vfInt("us", 0, 999999)
	sub := vfInt("subus", 0, 999) // nanoseconds below the microsecond are dropped
	tm := time.Date(2000, 1, 1, h, m, s, us*1000+sub, time.UTC)
	bs, err := BIGTIMEN.Bytes(le, tm, 8)
	vfAssert(err == nil, "encoding succeeds")
	want := ((h*60+m)*60+s)*1000000 + us
	vfAssert(len(bs) == 8, "eight bytes")
	vfAssert(c05ULow(bs[:7]) == want, "C05: bigtime is microseconds since midnight")
	vfAssert(bs[7] == 0, "C05: bigtime top byte")
	vfReach("end")
}

// reference calendar (independent of the library and of package time): days from
// 1970-01-01 of a proleptic Gregorian date, after Hinnant's days_from_civil
func c05DaysFromCivil(y, m, d int) int {
	if m <= 2 {
		y--
	}
	era := y / 400 // y >= 0 for years >= 1
	yoe := y - era*400
	mp := (m + 9) % 12
	doy := (153*mp+2)/5 + d - 1
	doe := yoe*365 + yoe/4 - yoe/100 + doy
	return era*146097 + doe - 719468
}

func c05Leap(y int) bool { return y%4 == 0 && (y%100 != 0 || y%400 == 0) }

func c05DaysIn(y, m int) int {
	switch m {
	case 2:
		if c05Leap(y) {
			return 29
		}
		return 28
	case 4, 6, 9, 11:
		return 30
	}
	return 31
}

// centuries explored: all in thorough, a spread incl. the epochs in quick
func c05Century() int {
	if vfThorough() {
		return vfPick("centuryhi", 0, 9)*10 + vfPick("centurylo", 0, 9)
	}
	return []int{0, 3, 15, 17, 18, 19, 20, 99}[vfPick("centuryidx", 0, 7)]
}

// an arbitrary valid date of years 1..9999: century and month are case-split,
// year-of-century and day are symbolic
func c05Date() (y, m, d int) {
	y = c05Century()*100 + vfInt("yy", 0, 99)
	vfAssume(y >= 1)
	m = vfPick("month", 1, 12)
	d = vfInt("day", 1, 31)
	vfAssume(d <= c05DaysIn(y, m))
	return
}

// DATE, client -> server: days since 1900-01-01, whatever the time of day
func HarnessC05_DateEncode() {
	vfLoopBound(200)
	y, m, d := c05Date()
	secs := vfInt("secs", 0, 86399)
	tm := time.Date(y, time.Month(m), d, 0, 0, secs, vfInt("ns", 0, 999999999), time.UTC)
	t := []DataType{DATE, DATEN}[vfPick("type", 0, 1)]
	bs, err := t.Bytes(le, tm, 4)
	vfAssert(err == nil, "encoding succeeds")
	vfAssert(len(bs) == 4, "four bytes")
	vfAssert(c05S32(c05ULow(bs)) == c05DaysFromCivil(y, m, d)+c05Days1900to1970, "C05: DATE is days since 1900-01-01")
	vfReach("end")
}

// DATE, server -> client
func HarnessC05_DateDecode() {
	vfLoopBound(200)
	raw := vfBytes("raw", 4)
	x := c05S32(c05ULow(raw))
	vfAssume(x >= c05MinDay1900 && x <= c05MaxDay1900)
	t := []DataType{DATE, DATEN}[vfPick("type", 0, 1)]
	val, err := t.GoValue(le, raw)
	vfAssert(err == nil, "decoding succeeds")
	tm := val.(time.Time)
	vfAssert(tm.Unix() == int64((x-c05Days1900to1970)*86400), "C05: DATE is days since 1900-01-01")
	vfReach("end")
}

// TIME / TIMEN, server -> client: 1/300 s ticks since midnight; the decoded time
// lies within one tick below the tick's instant
func HarnessC05_TimeDecode() {
	vfLoopBound(200)
	raw := vfBytes("raw", 4)
	ticks := c05ULow(raw)
	vfAssume(ticks <= 25919999)
	t := []DataType{TIME, TIMEN}[vfPick("type", 0, 1)]
	val, err := t.GoValue(le, raw)
	vfAssert(err == nil, "decoding succeeds")
	ns := c05Clock(val.(time.Time))
	vfAssert(ns*3 <= ticks*10000000 && ticks*10000000 < ns*3+10000000, "C05: decoded time within a tick of ticks/300 s")
	vfReach("end")
}

// TIME / TIMEN, client -> server: the nearest tick (times in the last half tick
// of the day would round up to 24:00:00 and are outside)
func HarnessC05_TimeEncode() {
	vfLoopBound(200)
	h, m, s, us := vfInt("h", 0, 23), vfInt("m", 0, 59), vfInt("s", 0, 59), vfInt("us", 0, 999999)
	tm := time.Date(2000, 1, 1, h, m, s, us*1000+vfInt("subus", 0, 999), time.UTC)
	day := ((h*60+m)*60+s)*1000000 + us
	vfAssume(day*3+5000 < 25920000*10000)
	t := []DataType{TIME, TIMEN}[vfPick("type", 0, 1)]
	bs, err := t.Bytes(le, tm, 4)
	vfAssert(err == nil, "encoding succeeds")
	vfAssert(len(bs) == 4, "four bytes")
	ticks := c05ULow(bs)
	vfAssert(ticks*10000-day*3 <= 5000 && day*3-ticks*10000 <= 5000, "C05: TIME is the nearest 1/300 s tick")
	vfReach("end")
}

// SHORTDATE (smalldatetime), server -> client: uint16 days since 1900-01-01, uint16 minutes
func HarnessC05_ShortDateDecode() {
	vfLoopBound(200)
	raw := vfBytes("raw", 4)
	days, mins := c05ULow(raw[:2]), c05ULow(raw[2:])
	vfAssume(mins <= 1439)
	val, err := SHORTDATE.GoValue(le, raw)
	vfAssert(err == nil, "decoding succeeds")
	tm := val.(time.Time)
	vfAssert(tm.Unix() == int64((days-c05Days1900to1970)*86400+mins*60), "C05: smalldatetime is days and minutes since 1900-01-01")
	vfAssert(tm.Nanosecond() == 0, "C05: smalldatetime has no fraction")
	vfReach("end")
}

// SHORTDATE, client -> server (1900-01-01 .. 2079-06-06 is what uint16 days hold)
func HarnessC05_ShortDateEncode() {
	vfLoopBound(200)
	y := 1900 + vfInt("yy", 0, 178)
	m := vfPick("month", 1, 12)
	d := vfInt("day", 1, 31)
	vfAssume(d <= c05DaysIn(y, m))
	h, mi, s := vfInt("h", 0, 23), vfInt("m", 0, 59), vfInt("s", 0, 59)
	tm := time.Date(y, time.Month(m), d, h, mi, s, vfInt("ns", 0, 999999999), time.UTC)
	bs, err := SHORTDATE.Bytes(le, tm, 4)
	vfAssert(err == nil, "encoding succeeds")
	vfAssert(len(bs) == 4, "four bytes")
	vfAssert(c05ULow(bs[:2]) == c05DaysFromCivil(y, m, d)+c05Days1900to1970, "C05: smalldatetime days since 1900-01-01")
	vfAssert(c05ULow(bs[2:]) == h*60+mi, "C05: smalldatetime minutes since midnight")
	vfReach("end")
}

// DATETIME / DATETIMEN, server -> client: int32 days since 1900-01-01, uint32 ticks
func HarnessC05_DateTimeDecode() {
	vfLoopBound(200)
	// 1753-01-01 .. 9999-12-31; the sign of the day offset is case-split
	var days int
	if vfPick("before1900", 0, 1) == 1 {
		days = vfInt("daysneg", -53690, -1)
	} else {
		days = vfInt("days", 0, c05MaxDay1900)
	}
	ticks := vfInt("ticks", 0, 25919999)
	raw := append(c05LE(days, 4), c05LE(ticks, 4)...)
	t := []DataType{DATETIME, DATETIMEN}[vfPick("type", 0, 1)]
	val, err := t.GoValue(le, raw)
	vfAssert(err == nil, "decoding succeeds")
	tm := val.(time.Time)
	secs := int(tm.Unix()) - (days-c05Days1900to1970)*86400
	vfAssert(secs >= 0, "C05: the decoded time lies on day `days` since 1900-01-01 (lower)")
	vfAssert(secs < 86400, "C05: the decoded time lies on day `days` since 1900-01-01 (upper)")
	ms := secs*1000 + tm.Nanosecond()/1000000
	vfAssert(tm.Nanosecond()%1000000 == 0, "decoded datetime has millisecond granularity")
	vfAssert(ms*3 <= ticks*10, "C05: datetime time of day is ticks/300 s (not after the tick)")
	vfAssert(ticks*10 < ms*3+10, "C05: datetime time of day is ticks/300 s (within a tick)")
	vfReach("end")
}

// DATETIME / DATETIMEN, client -> server (thorough: every other century, the
// day-number arithmetic is shared with DATE and BIGDATETIME which take them all)
func HarnessC05_DateTimeEncode() {
	vfLoopBound(200)
	var y, m, d int
	if vfThorough() {
		y = (vfPick("centuryhi", 1, 9)*10+[]int{0, 3, 5, 7, 9}[vfPick("centurylo", 0, 4)])*100 + vfInt("yy", 0, 99)
		m = vfPick("month", 1, 12)
		d = vfInt("day", 1, 31)
		vfAssume(d <= c05DaysIn(y, m))
	} else {
		y, m, d = c05Date()
	}
	vfAssume(y >= 1753)
	h, mi, s, us := vfInt("h", 0, 23), vfInt("m", 0, 59), vfInt("s", 0, 59), vfInt("us", 0, 999999)
	tm := time.Date(y, time.Month(m), d, h, mi, s, us*1000+vfInt("subus", 0, 999), time.UTC)
	day := ((h*60+mi)*60+s)*1000000 + us
	vfAssume(day*3+5000 < 25920000*10000)
	// both types share the encoder; they alternate over the months instead of doubling the paths
	t := []DataType{DATETIME, DATETIMEN}[m%2]
	bs, err := t.Bytes(le, tm, 8)
	vfAssert(err == nil, "encoding succeeds")
	vfAssert(len(bs) == 8, "eight bytes")
	vfAssert(c05S32(c05ULow(bs[:4])) == c05DaysFromCivil(y, m, d)+c05Days1900to1970, "C05: datetime days since 1900-01-01")
	ticks := c05ULow(bs[4:])
	vfAssert(ticks*10000-day*3 <= 5000 && day*3-ticks*10000 <= 5000, "C05: datetime time of day is the nearest 1/300 s tick")
	vfReach("end")
}

// BIGDATETIMEN, server -> client: microseconds since 0000-01-01
func HarnessC05_BigDateTimeDecode() {
	vfLoopBound(200)
	day := vfInt("day", 366, 3652424) // 0001-01-01 .. 9999-12-31 counted from 0000-01-01
	us := vfInt("us", 0, 86399999999)
	raw := c05LE(day*86400000000+us, 8)
	val, err := BIGDATETIMEN.GoValue(le, raw)
	vfAssert(err == nil, "decoding succeeds")
	tm := val.(time.Time)
	vfAssert(tm.Unix() == int64((day-366-c05Days0001to1970)*86400+us/1000000), "C05: bigdatetime is microseconds since 0000-01-01")
	vfAssert(tm.Nanosecond() == (us%1000000)*1000, "C05: bigdatetime microsecond part")
	vfReach("end")
}

// BIGDATETIMEN, client -> server
func HarnessC05_BigDateTimeEncode() {
	vfLoopBound(200)
	y, m, d := c05Date()
	h, mi, s, us := vfInt("h", 0, 23), vfInt("m", 0, 59), vfInt("s", 0, 59), vfInt("us", 0, 999999)
	tm := time.Date(y, time.Month(m), d, h, mi, s, us*1000+vfInt("subus", 0, 999), time.UTC)
	bs, err := BIGDATETIMEN.Bytes(le, tm, 8)
	vfAssert(err == nil, "encoding succeeds")
	vfAssert(len(bs) == 8, "eight bytes")
	want := (c05DaysFromCivil(y, m, d)+c05Days0001to1970+366)*86400000000 + ((h*60+mi)*60+s)*1000000 + us
	vfAssert(c05ULow(bs) == want, "C05: bigdatetime is microseconds since 0000-01-01")
	vfReach("end")
}

// calendar helper TimeToMicroseconds agrees with the reference calendar
// not registered: the helper computes in uint64 (64-bit bit-vector multiplication by
// 86400000000), which z3 does not decide within the time limit
func UndecidedC05_TimeToMicroseconds() {
	vfLoopBound(200)
	y, m, d := c05Date()
	h, mi, s, us := vfInt("h", 0, 23), vfInt("m", 0, 59), vfInt("s", 0, 59), vfInt("us", 0, 999999)
	tm := time.Date(y, time.Month(m), d, h, mi, s, us*1000, time.UTC)
	want := (c05DaysFromCivil(y, m, d)+c05Days0001to1970+366)*86400000000 + ((h*60+mi)*60+s)*1000000 + us
	vfAssert(asetime.TimeToMicroseconds(tm) == uint64(want), "C05: TimeToMicroseconds agrees with the proleptic Gregorian calendar")
	vfReach("end")
}

// calendar helper MicrosecondsToTime agrees with the reference calendar; the day
// number is case-split by year (window of one year)
// not registered: uint64 division/remainder by constants plus the Fliegel/Van Flandern
// inversion are not decided within the time limit
func UndecidedC05_MicrosecondsToTime() {
	vfLoopBound(200)
	yys := []int{0, 1, 4, 50, 96, 99}
	if vfThorough() {
		yys = []int{0, 1, 2, 3, 4, 25, 50, 75, 96, 97, 98, 99}
	}
	y := c05Century()*100 + yys[vfPick("yyidx", 0, len(yys)-1)]
	vfAssume(y >= 1)
	first := c05DaysFromCivil(y, 1, 1) + c05Days0001to1970 + 366
	n := 365
	if c05Leap(y) {
		n = 366
	}
	day := first + vfInt("dayofyear", 0, 365)
	vfAssume(day < first+n)
	us := vfInt("us", 0, 86399999999)
	tm := asetime.MicrosecondsToTime(uint64(day*86400000000 + us))
	vfAssert(tm.Unix() == int64((day-366-c05Days0001to1970)*86400+us/1000000), "C05: MicrosecondsToTime agrees with the proleptic Gregorian calendar")
	vfAssert(tm.Nanosecond() == (us%1000000)*1000, "C05: MicrosecondsToTime microsecond part")
	vfReach("end")
}
