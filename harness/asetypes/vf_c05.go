package asetypes

import (
	"time"

	"github.com/SAP/go-dblib/asetime"
)

// C04/C05 temporal types. Reference constants (independent of the library):
// 1900-01-01 is 25567 days before 1970-01-01; 0001-01-01 is 719162 days before it.

const (
	c05Days1900to1970 = 25567
	c05Days0001to1970 = 719162
	c05MinDay1900     = -693595 // 0001-01-01
	c05MaxDay1900     = 2958463 // 9999-12-31
)

// little-endian value of symbolic bytes, as a mathematical integer
func c05U(raw []byte) int {
	v := 0
	for i := len(raw) - 1; i >= 0; i-- {
		v = v*256 + int(raw[i])
	}
	return v
}

// two's complement interpretation of a 32-bit value
func c05S32(u int) int {
	if u >= 1<<31 {
		return u - 1<<32
	}
	return u
}

// DATE: days since 1900-01-01 as int32
// not registered: z3 answers unknown within 60 s for the mixed 64-bit wrap-around /
// calendar arithmetic of this harness (see DESIGN.md, C04/C05 temporal types)
func UndecidedC05_Date() {
	vfLoopBound(200)
	raw := vfBytes("raw", 4)
	x := c05S32(c05U(raw))
	vfAssume(x >= c05MinDay1900 && x <= c05MaxDay1900)
	t := []DataType{DATE, DATEN}[vfPick("type", 0, 1)]
	val, err := t.GoValue(le, raw)
	vfAssert(err == nil, "decoding succeeds")
	tm := val.(time.Time)
	vfAssert(tm.Unix() == int64((x-c05Days1900to1970)*86400), "C05: DATE is days since 1900-01-01")
	bs, err := t.Bytes(le, tm, 4)
	vfAssert(err == nil, "encoding succeeds")
	c04SameBytes(bs, raw, "C04 date")
	vfReach("end")
}

// DATE ignores the time of day also before 1900
func HarnessC04_DateWithTimeOfDay() {
	vfLoopBound(200)
	// bounded to the years 1897..1902 around the 1900 epoch (the solver does not decide
	// the full 0001..9999 range within its time limit)
	x := vfInt("days", -1000, 1000)
	secs := vfInt("secs", 0, 86399)
	tm := asetime.Epoch1900().AddDate(0, 0, x).Add(time.Duration(secs) * time.Second)
	bs, err := DATE.Bytes(le, tm, 4)
	vfAssert(err == nil, "encoding succeeds")
	vfAssert(len(bs) == 4 && c05S32(c05U(bs)) == x, "C04: DATE is the calendar day regardless of the time of day")
	vfReach("end")
}

// TIME: 1/300 s ticks since midnight
// not registered: z3 answers unknown within 60 s for the mixed 64-bit wrap-around /
// calendar arithmetic of this harness (see DESIGN.md, C04/C05 temporal types)
func UndecidedC05_Time() {
	vfLoopBound(200)
	raw := vfBytes("raw", 4)
	ticks := c05U(raw)
	vfAssume(ticks <= 25919999)
	t := []DataType{TIME, TIMEN}[vfPick("type", 0, 1)]
	val, err := t.GoValue(le, raw)
	vfAssert(err == nil, "decoding succeeds")
	tm := val.(time.Time)
	// the tick count is preserved by decode + encode, and the decoded time is within one tick
	ns := tm.Hour()*3600000000000 + tm.Minute()*60000000000 + tm.Second()*1000000000 + tm.Nanosecond()
	vfAssert(ns*3 <= ticks*10000000 && ticks*10000000 < ns*3+10000000+3000000, "C05: decoded time within a tick of ticks/300 s")
	bs, err := t.Bytes(le, tm, 4)
	vfAssert(err == nil, "encoding succeeds")
	c04SameBytes(bs, raw, "C04 time: ticks survive")
	vfReach("end")
}

// SHORTDATE (smalldatetime): uint16 days since 1900-01-01, uint16 minutes
// not registered: z3 answers unknown within 60 s for the mixed 64-bit wrap-around /
// calendar arithmetic of this harness (see DESIGN.md, C04/C05 temporal types)
func UndecidedC05_ShortDate() {
	vfLoopBound(200)
	raw := vfBytes("raw", 4)
	days, mins := c05U(raw[:2]), c05U(raw[2:])
	vfAssume(mins <= 1439)
	val, err := SHORTDATE.GoValue(le, raw)
	vfAssert(err == nil, "decoding succeeds")
	tm := val.(time.Time)
	vfAssert(tm.Unix() == int64((days-c05Days1900to1970)*86400+mins*60), "C05: smalldatetime is days and minutes since 1900-01-01")
	bs, err := SHORTDATE.Bytes(le, tm, 4)
	vfAssert(err == nil, "encoding succeeds")
	c04SameBytes(bs, raw, "C04 smalldatetime")
	vfReach("end")
}

// DATETIME: int32 days since 1900-01-01, uint32 ticks of 1/300 s
// not registered: z3 answers unknown within 60 s for the mixed 64-bit wrap-around /
// calendar arithmetic of this harness (see DESIGN.md, C04/C05 temporal types)
func UndecidedC05_DateTime() {
	vfLoopBound(200)
	raw := vfBytes("raw", 8)
	days, ticks := c05S32(c05U(raw[:4])), c05U(raw[4:])
	vfAssume(days >= -53690 && days <= c05MaxDay1900 && ticks <= 25919999) // 1753-01-01 .. 9999-12-31
	t := []DataType{DATETIME, DATETIMEN}[vfPick("type", 0, 1)]
	val, err := t.GoValue(le, raw)
	vfAssert(err == nil, "decoding succeeds")
	tm := val.(time.Time)
	u := tm.Unix()
	vfAssert(u >= int64(days-c05Days1900to1970)*86400 && u < int64(days-c05Days1900to1970+1)*86400, "C05: the decoded time lies on day `days` since 1900-01-01")
	bs, err := t.Bytes(le, tm, 8)
	vfAssert(err == nil, "encoding succeeds")
	c04SameBytes(bs, raw, "C04 datetime: days and ticks survive")
	vfReach("end")
}

// BIGDATETIMEN: microseconds since 0000-01-01; BIGTIMEN: microseconds since midnight
// not registered: z3 answers unknown within 60 s for the mixed 64-bit wrap-around /
// calendar arithmetic of this harness (see DESIGN.md, C04/C05 temporal types)
func UndecidedC05_BigDateTime() {
	vfLoopBound(200)
	raw := vfBytes("raw", 8)
	v := c05U(raw)
	day, us := v/86400000000, v%86400000000
	vfAssume(v < 1<<62 && day >= 366 && day <= 3652424) // 0001-01-01 .. 9999-12-31 counted from 0000-01-01
	val, err := BIGDATETIMEN.GoValue(le, raw)
	vfAssert(err == nil, "decoding succeeds")
	tm := val.(time.Time)
	vfAssert(tm.Unix() == int64(day-366-c05Days0001to1970)*86400+int64(us/1000000), "C05: bigdatetime is microseconds since 0000-01-01")
	vfAssert(tm.Nanosecond() == (us%1000000)*1000, "C05: microsecond part")
	bs, err := BIGDATETIMEN.Bytes(le, tm, 8)
	vfAssert(err == nil, "encoding succeeds")
	c04SameBytes(bs, raw, "C04 bigdatetime")
	vfReach("end")
}

// not registered: z3 answers unknown within 60 s for the mixed 64-bit wrap-around /
// calendar arithmetic of this harness (see DESIGN.md, C04/C05 temporal types)
func UndecidedC05_BigTime() {
	vfLoopBound(200)
	raw := vfBytes("raw", 8)
	us := c05U(raw)
	vfAssume(us <= 86399999999)
	val, err := BIGTIMEN.GoValue(le, raw)
	vfAssert(err == nil, "decoding succeeds")
	tm := val.(time.Time)
	ns := tm.Hour()*3600000000000 + tm.Minute()*60000000000 + tm.Second()*1000000000 + tm.Nanosecond()
	vfAssert(ns == us*1000, "C05: bigtime is microseconds since midnight")
	bs, err := BIGTIMEN.Bytes(le, tm, 8)
	vfAssert(err == nil, "encoding succeeds")
	c04SameBytes(bs, raw, "C04 bigtime")
	vfReach("end")
}

// calendar helpers: TimeToMicroseconds / MicrosecondsToTime are inverse and agree with
// the proleptic Gregorian calendar (day number from 0000-01-01)
// not registered: z3 answers unknown within 60 s for the mixed 64-bit wrap-around /
// calendar arithmetic of this harness (see DESIGN.md, C04/C05 temporal types)
func UndecidedC05_CalendarHelpers() {
	vfLoopBound(200)
	day := vfInt("day", 366, 3652424)
	us := vfInt("us", 0, 86399999999)
	v := uint64(day)*86400000000 + uint64(us)
	tm := asetime.MicrosecondsToTime(v)
	vfAssert(tm.Unix() == int64(day-366-c05Days0001to1970)*86400+int64(us/1000000), "C05: MicrosecondsToTime agrees with the proleptic Gregorian calendar")
	vfAssert(asetime.TimeToMicroseconds(tm) == v, "C05: TimeToMicroseconds inverts MicrosecondsToTime")
	vfReach("end")
}
