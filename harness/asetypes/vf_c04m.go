package asetypes

// 8-byte MONEY over the full int64 range, value first: the count is symbolic,
// the prescribed bytes are the high word then the low word, each little endian
func c04mRef(x int) []byte {
	hi := x >> 32      // arithmetic shift: floor(x / 2^32)
	lo := x - hi<<32   // 0 .. 2^32-1
	return append(c05LE(hi, 4), c05LE(lo, 4)...)
}

func HarnessC05_MoneyEncode8() {
	vfLoopBound(200)
	x := int(vfI64("v"))
	t := []DataType{MONEY, MONEYN}[vfPick("type", 0, 1)]
	dec, err := NewDecimal(ASEMoneyPrecision, ASEMoneyScale)
	vfAssume(err == nil)
	dec.SetInt64(int64(x))
	bs, err := t.Bytes(le, dec, 8)
	vfAssert(err == nil, "encoding succeeds")
	c04SameBytes(bs, c04mRef(x), "C05: money is high word then low word")
	vfReach("end")
}

func HarnessC05_MoneyDecode8() {
	vfLoopBound(200)
	x := int(vfI64("v"))
	t := []DataType{MONEY, MONEYN}[vfPick("type", 0, 1)]
	val, err := t.GoValue(le, c04mRef(x))
	vfAssert(err == nil, "decoding succeeds")
	dec := val.(*Decimal)
	vfAssert(dec.Scale == 4, "money scale")
	vfAssert(dec.Int().Int64() == int64(x), "C05: money is high word then low word of the 64-bit count of 1/10000")
	vfReach("end")
}
