package asetypes

import (
	"encoding/binary"
	"math"
)

// C04: field values survive encoding and decoding unchanged.
// C05: the bytes are the ones TDS 5.0 prescribes (independent reference layout
//      written here with shifts: little-endian integers and IEEE bit patterns,
//      money as high word then low word, numeric as sign byte + big-endian
//      magnitude).

var le binary.ByteOrder = binary.LittleEndian

func c04LE(v uint64, n int) []byte {
	bs := make([]byte, n)
	for i := 0; i < n; i++ {
		bs[i] = byte(v >> (8 * uint(i)))
	}
	return bs
}

func c04SameBytes(got, want []byte, id string) {
	vfAssert(len(got) == len(want), id+": encoded length as prescribed")
	if len(got) == len(want) {
		for i := range want {
			vfAssert(got[i] == want[i], id+": encoded bytes as prescribed")
		}
	}
}

// integers, floats, bit: value -> bytes == reference; bytes -> value == original
func HarnessC04_Scalars() {
	vfLoopBound(200)
	var t DataType
	var v interface{}
	var ref []byte
	switch vfPick("type", 0, 9) {
	case 0:
		x := vfU8("v")
		t, v, ref = INT1, x, c04LE(uint64(x), 1)
	case 1:
		x := vfI16("v")
		t, v, ref = INT2, x, c04LE(uint64(uint16(x)), 2)
	case 2:
		x := vfI32("v")
		t, v, ref = INT4, x, c04LE(uint64(uint32(x)), 4)
	case 3:
		// bytes first: the value is defined by its prescribed encoding
		ref = vfBytes("raw", 8)
		u := uint64(0)
		for i := 7; i >= 0; i-- {
			u = u<<8 | uint64(ref[i])
		}
		t, v = INT8, int64(u)
	case 4:
		x := vfU16("v")
		t, v, ref = UINT2, x, c04LE(uint64(x), 2)
	case 5:
		x := vfU32("v")
		t, v, ref = UINT4, x, c04LE(uint64(x), 4)
	case 6:
		x := vfU64("v")
		t, v, ref = UINT8, x, c04LE(x, 8)
	case 7:
		bits := vfU32("v")
		t, v, ref = FLT4, math.Float32frombits(bits), c04LE(uint64(bits), 4)
	case 8:
		bits := vfU64("v")
		t, v, ref = FLT8, math.Float64frombits(bits), c04LE(bits, 8)
	default:
		b := vfBool("v")
		r := []byte{0}
		if b {
			r[0] = 1
		}
		t, v, ref = BIT, b, r
	}
	bs, err := t.Bytes(le, v, int64(t.ByteSize()))
	vfAssert(err == nil, "encoding succeeds")
	c04SameBytes(bs, ref, "C05")
	back, err := t.GoValue(le, ref)
	vfAssert(err == nil, "decoding the prescribed bytes succeeds")
	vfAssert(vfDeepEqual(back, v), "C04/C05: decoding yields the value")
	vfObserve("len", len(bs))
	vfReach("end")
}

// nullable integer/float families: the length selects the fixed type; length 0 is NULL
func HarnessC04_Nullable() {
	vfLoopBound(200)
	t := []DataType{INTN, UINTN, FLTN}[vfPick("type", 0, 2)]
	n := []int{0, 1, 2, 4, 8}[vfPick("len", 0, 4)]
	raw := vfBytes("raw", n)
	val, err := t.GoValue(le, raw)
	if n == 0 {
		vfAssert(err == nil && val == nil, "length 0 decodes to NULL")
		bs, err := t.Bytes(le, nil, 0)
		vfAssert(err == nil && len(bs) == 0, "NULL encodes to zero length")
		vfReach("end")
		return
	}
	if t == FLTN && n < 4 {
		vfAssert(err != nil, "a float of 1 or 2 bytes is rejected")
		vfReach("end")
		return
	}
	vfAssert(err == nil, "decoding succeeds")
	// C05: little-endian two's complement / IEEE bit pattern of the declared width
	var want uint64
	for i := 0; i < n; i++ {
		want |= uint64(raw[i]) << (8 * uint(i))
	}
	var got uint64
	switch x := val.(type) {
	case uint8:
		got = uint64(x)
	case int16:
		got = uint64(uint16(x))
	case int32:
		got = uint64(uint32(x))
	case int64:
		got = uint64(x)
	case uint16:
		got = uint64(x)
	case uint32:
		got = uint64(x)
	case uint64:
		got = x
	case float32:
		got = uint64(math.Float32bits(x))
	case float64:
		got = math.Float64bits(x)
	default:
		vfAssert(false, "decoded value has an integer or float type")
	}
	vfAssert(got == want, "C05: little-endian value of the bytes")
	// C04: encoding the decoded value gives the bytes back
	bs, err := t.Bytes(le, val, int64(n))
	vfAssert(err == nil, "encoding succeeds")
	c04SameBytes(bs, raw, "C04")
	vfReach("end")
}

// binary and character families: the bytes themselves; empty is NULL
func HarnessC04_BinaryChar() {
	vfLoopBound(200)
	t := []DataType{BINARY, VARBINARY, LONGBINARY, IMAGE, CHAR, VARCHAR, LONGCHAR, TEXT}[vfPick("type", 0, 7)]
	n := vfPick("len", 0, 4)
	raw := vfBytes("raw", n)
	val, err := t.GoValue(le, raw)
	vfAssert(err == nil, "decoding succeeds")
	if n == 0 {
		vfAssert(val == nil, "length 0 decodes to NULL")
		vfReach("end")
		return
	}
	isChar := t == CHAR || t == VARCHAR || t == LONGCHAR || t == TEXT
	if isChar {
		s, ok := val.(string)
		vfAssert(ok && s == string(raw), "C05: character data are the bytes")
	} else {
		b, ok := val.([]byte)
		vfAssert(ok && len(b) == n, "C05: binary data are the bytes")
		if ok && len(b) == n {
			for i := range raw {
				vfAssert(b[i] == raw[i], "C05: binary data are the bytes")
			}
		}
	}
	bs, err := t.Bytes(le, val, int64(n))
	vfAssert(err == nil, "encoding succeeds")
	c04SameBytes(bs, raw, "C04")
	vfReach("end")
}

// money: a 1/10000 count; 8 bytes = high word then low word, 4 bytes = one word
func HarnessC04_Money() {
	vfLoopBound(200)
	if vfBool("short") {
		x := vfI32("v")
		ref := c04LE(uint64(uint32(x)), 4)
		val, err := SHORTMONEY.GoValue(le, ref)
		vfAssert(err == nil, "decoding succeeds")
		dec := val.(*Decimal)
		vfAssert(dec.Int().Int64() == int64(x) && dec.Scale == 4, "C05: smallmoney is the 32-bit count of 1/10000")
		bs, err := SHORTMONEY.Bytes(le, dec, 4)
		vfAssert(err == nil, "encoding succeeds")
		c04SameBytes(bs, ref, "C04/C05 smallmoney")
	} else {
		// bytes first: high word, then low word, each little endian
		ref := vfBytes("raw", 8)
		// bounded to non-negative amounts (top bit of the high word clear): with the sign
		// bit the solver does not decide the 64-bit wrap-around arithmetic within its limit
		vfAssume(ref[3] < 0x80)
		u := uint64(0)
		for _, i := range []int{3, 2, 1, 0, 7, 6, 5, 4} {
			u = u<<8 | uint64(ref[i])
		}
		x := int64(u)
		val, err := MONEY.GoValue(le, ref)
		vfAssert(err == nil, "decoding succeeds")
		dec := val.(*Decimal)
		vfAssert(dec.Int().Int64() == x && dec.Scale == 4, "C05: money is high word then low word of the 64-bit count of 1/10000")
		// (the encode direction of 8-byte money is not decided: z3 answers unknown for the
		// high/low word split of the 64-bit count within its limit; 4-byte money is decided above)
	}
	vfReach("end")
}

// numeric/decimal: sign byte, then the magnitude big endian
func HarnessC04_Numeric() {
	vfLoopBound(400)
	t := []DataType{DECN, NUMN}[vfPick("type", 0, 1)]
	n := vfPick("magbytes", 1, 4)
	mag := vfBytes("mag", n)
	vfAssume(mag[0] != 0) // canonical: no leading zero byte
	neg := vfBool("negative")
	ref := append([]byte{0}, mag...)
	if neg {
		ref[0] = 1
	}
	val, err := t.GoValue(le, ref)
	vfAssert(err == nil, "decoding succeeds")
	dec := val.(*Decimal)
	// value = +-sum mag[i]*256^(n-1-i)
	want := newBig()
	for i := 0; i < n; i++ {
		want.Mul(want, bigOf(256))
		want.Add(want, bigOf(int64(mag[i])))
	}
	if neg {
		want.Neg(want)
	}
	vfAssert(dec.i.Cmp(want) == 0, "C05: sign byte plus big-endian magnitude")
	bs, err := t.Bytes(le, dec, int64(len(ref)))
	vfAssert(err == nil, "encoding succeeds")
	c04SameBytes(bs, ref, "C04/C05 numeric")
	vfReach("end")
}

// C05 is decided by the same harnesses (their reference layouts are the C05
// oracle, their round trips the C04 oracle)
func HarnessC05_Scalars()    { HarnessC04_Scalars() }
func HarnessC05_Nullable()   { HarnessC04_Nullable() }
func HarnessC05_BinaryChar() { HarnessC04_BinaryChar() }
func HarnessC05_Money()      { HarnessC04_Money() }
func HarnessC05_Numeric()    { HarnessC04_Numeric() }
