package capability

import "errors"

// C19: a version has a capability exactly inside the capability's ranges.
//
// Versions and bounds are strings of at most one byte: "" = no bound, a byte
// b < 0xFF = version number b, 0xFF = something the comparer cannot parse. The
// comparer is a custom VersionComparer (byte comparison, error on 0xFF or "").
// All bounds and the version are symbolic; the oracle is plain interval
// membership on the byte values.

var errC19Parse = errors.New("harness: unparseable version")

func c19Cmp(a, b string) (int, error) {
	if len(a) != 1 || len(b) != 1 || a[0] == 0xFF || b[0] == 0xFF {
		return 0, errC19Parse
	}
	switch {
	case a[0] < b[0]:
		return -1, nil
	case a[0] > b[0]:
		return 1, nil
	}
	return 0, nil
}

func c19Str(name string) string {
	return vfString(name, vfPick(name+"len", 0, 1))
}

type c19Range struct{ lo, hi string }

func (r c19Range) wellFormed() bool {
	if r.lo != "" && r.lo[0] == 0xFF {
		return false
	}
	if r.hi != "" && r.hi[0] == 0xFF {
		return false
	}
	if r.lo != "" && r.hi != "" && r.lo[0] >= r.hi[0] {
		return false
	}
	return true
}

// interval membership: lower bound inclusive, upper exclusive, missing bound unbounded
func (r c19Range) contains(v byte) bool {
	if r.lo == "" && r.hi == "" {
		return false
	}
	return (r.lo == "" || r.lo[0] <= v) && (r.hi == "" || v < r.hi[0])
}

func c19Capability(maxRanges int) (*Capability, []c19Range) {
	n := vfPick("ranges", 0, maxRanges)
	var specs []string
	var rs []c19Range
	for i := 0; i < n; i++ {
		r := c19Range{c19Str("lo"), c19Str("hi")}
		// NewCapability takes bounds pairwise; a pair with both bounds empty is only
		// expressible in the middle of the list, so keep every pair non-empty
		vfAssume(r.lo != "" || r.hi != "")
		rs = append(rs, r)
		specs = append(specs, r.lo, r.hi)
	}
	return NewCapability("cap", specs...), rs
}

func c19MaxRanges() int {
	if vfThorough() {
		return 4
	}
	return 3
}

func HarnessC19_Membership() {
	vfBound("ranges", c19MaxRanges())
	vfLoopBound(40)
	capa, rs := c19Capability(c19MaxRanges())
	vfAssert(len(capa.VersionRanges) == len(rs), "NewCapability pairs the bounds into ranges")
	empty := NewCapability("never")
	target := Target{VersionComparer: c19Cmp, Capabilities: []*Capability{empty, capa}}
	v := vfString("version", 1)
	ver := NewDefaultVersion(v)
	err := target.SetCapabilities(ver)
	allOK := v[0] != 0xFF
	want := false
	for _, r := range rs {
		allOK = allOK && r.wellFormed()
		want = want || r.contains(v[0])
	}
	if allOK {
		vfAssert(err == nil, "well-formed input: no error")
		vfAssert(ver.Has(capa) == want, "capability reported exactly inside one of its ranges")
	}
	if err == nil {
		// whatever was evaluated was well-formed: the answer must still be interval membership
		// over the ranges up to the first containing one
		got := ver.Has(capa)
		if got {
			vfAssert(want || !allOK, "reported capability lies in some range")
		}
	} else {
		vfAssert(!allOK, "an error is only returned for malformed input")
	}
	vfAssert(!ver.Has(empty), "a capability without ranges is never reported")
	vfObserve("has", ver.Has(capa))
	vfReach("end")
}

// the outcome does not depend on the order of the ranges
func HarnessC19_Order() {
	vfLoopBound(40)
	a := c19Range{c19Str("lo"), c19Str("hi")}
	b := c19Range{c19Str("lo"), c19Str("hi")}
	vfAssume((a.lo != "" || a.hi != "") && (b.lo != "" || b.hi != ""))
	v := vfString("version", 1)
	vfAssume(a.wellFormed() && b.wellFormed() && v[0] != 0xFF)
	c1 := NewCapability("ab", a.lo, a.hi, b.lo, b.hi)
	c2 := NewCapability("ba", b.lo, b.hi, a.lo, a.hi)
	// capabilities in both orders as well
	t1 := Target{VersionComparer: c19Cmp, Capabilities: []*Capability{c1, c2}}
	t2 := Target{VersionComparer: c19Cmp, Capabilities: []*Capability{c2, c1}}
	v1, v2 := NewDefaultVersion(v), NewDefaultVersion(v)
	vfAssert(t1.SetCapabilities(v1) == nil && t2.SetCapabilities(v2) == nil, "well-formed input: no error")
	vfAssert(v1.Has(c1) == v1.Has(c2), "order of ranges does not matter")
	vfAssert(v1.Has(c1) == v2.Has(c1) && v1.Has(c2) == v2.Has(c2), "order of capabilities does not matter")
	vfReach("end")
}

// malformed ranges and unparseable versions are reported when evaluated
func HarnessC19_Errors() {
	vfLoopBound(40)
	r := c19Range{c19Str("lo"), c19Str("hi")}
	vfAssume(r.lo != "" || r.hi != "")
	v := vfString("version", 1)
	capa := NewCapability("c", r.lo, r.hi)
	ver := NewDefaultVersion(v)
	err := Target{VersionComparer: c19Cmp, Capabilities: []*Capability{capa}}.SetCapabilities(ver)
	if !r.wellFormed() || v[0] == 0xFF {
		vfAssert(err != nil, "inverted, zero-width or unparseable input is an error, never a silent answer")
	} else {
		vfAssert(err == nil, "well-formed input: no error")
	}
	vfReach("end")
}
