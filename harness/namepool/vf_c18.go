package namepool

import "fmt"

// C18: pooled names are unique among concurrent holders.
//
// sync.Pool is modelled by its contract: Get returns any stored item or calls
// New, stored items may vanish at any time (garbage collection). The choice is
// made by the executor for every Get.

func c18Check(p *pool, live []*Name, id string) {
	for i, n := range live {
		vfAssert(n.id != nil && n.ID() != 0, id+": ids are never zero")
		vfAssert(n.Name() == fmt.Sprintf("n%d", n.ID()), id+": the text is the format applied to the id")
		for j := 0; j < i; j++ {
			vfAssert(n.ID() != live[j].ID(), id+": names held at the same time have distinct ids")
			vfAssert(n.Name() != live[j].Name(), id+": names held at the same time have distinct texts")
		}
	}
}

func c18Ops() int {
	if vfThorough() {
		return 6
	}
	return 5
}

// sequential histories of acquire / release / double release / release nil
func HarnessC18_History() {
	vfBound("operations", c18Ops())
	vfLoopBound(60)
	p := Pool("n%d")
	var live, dead []*Name
	for s := 0; s < c18Ops(); s++ {
		switch vfPick("op", 0, 3) {
		case 0:
			n := p.Acquire()
			live = append(live, n)
		case 1:
			if len(live) > 0 {
				k := vfPick("victim", 0, 5)
				if k < len(live) {
					n := live[k]
					live = append(append([]*Name{}, live[:k]...), live[k+1:]...)
					if vfBool("viaName") {
						n.Release()
					} else {
						p.Release(n)
					}
					vfAssert(n.id == nil && n.Name() == "" && n.pool == nil, "a released name is cleared")
					dead = append(dead, n)
				}
			}
		case 2:
			if len(dead) > 0 {
				n := dead[len(dead)-1]
				if vfBool("viaName") {
					n.Release() // releasing twice is harmless
				} else {
					p.Release(n)
				}
			}
		default:
			p.Release(nil)
		}
		c18Check(p, live, "history")
	}
	vfObserve("live", len(live))
	vfReach("end")
}

// two goroutines: acquire, release, acquire under every interleaving
func HarnessC18_Concurrent() {
	vfLoopBound(60)
	preempt := 2
	if vfThorough() {
		preempt = 3
	}
	vfConcurrent(preempt)
	// natively the race window is tiny: many goroutines and rounds make a lost update likely
	workers, rounds := 2, 1
	if vfNative() {
		workers, rounds = 32, 200
	}
	var p *pool
	var live []*Name
	for round := 0; round < rounds; round++ {
		p = Pool("n%d")
		done := make(chan *Name, 2*workers)
		start := make(chan struct{})
		per := 1
		if vfThorough() {
			per = 2
		}
		worker := func() {
			<-start
			a := p.Acquire()
			var b *Name
			if per == 2 {
				b = p.Acquire()
				vfAssert(a.ID() != b.ID(), "one goroutine's two names differ")
			}
			a.Release()
			c := p.Acquire()
			if b != nil {
				done <- b
			}
			done <- c
		}
		for w := 0; w < workers; w++ {
			go worker()
		}
		close(start)
		live = nil
		for i := 0; i < workers*per; i++ {
			live = append(live, <-done)
		}
		c18Check(p, live, "concurrent")
	}
	c18Check(p, live, "concurrent")
	vfReach("end")
}
