package dblib

import "database/sql"

// C20: isolation level mapping is a deterministic, consistent function.
// lvl ranges over every int value; the iteration order of the map is a
// symbolic permutation chosen independently for every range loop.

// forward table: the four ASE levels for supported levels, error otherwise.
func HarnessC20_Forward() {
	l := vfInt("lvl", -1<<62, 1<<62)
	ase, err := ASEIsolationLevelFromGo(sql.IsolationLevel(l))
	vfObserve("ase", int(ase))
	switch sql.IsolationLevel(l) {
	case sql.LevelDefault, sql.LevelReadCommitted:
		vfAssert(err == nil && ase == ASELevelReadCommitted, "default/read committed -> ReadCommitted")
	case sql.LevelReadUncommitted:
		vfAssert(err == nil && ase == ASELevelReadUncommitted, "read uncommitted")
	case sql.LevelRepeatableRead:
		vfAssert(err == nil && ase == ASELevelRepeatableRead, "repeatable read")
	case sql.LevelSerializable:
		vfAssert(err == nil && ase == ASELevelSerializableRead, "serializable")
	default:
		vfAssert(err != nil, "unsupported level is an error")
		vfAssert(ase == ASELevelInvalid, "unsupported level yields ASELevelInvalid")
	}
	vfReach("end")
}

// ToGo / String give the same answer every time they are evaluated.
func HarnessC20_Deterministic() {
	a := ASEIsolationLevel(vfInt("ase", -1<<62, 1<<62))
	for i := 0; i < vfRepeat(300); i++ {
		x := a.ToGo()
		y := a.ToGo()
		vfAssert(x == y, "ToGo is deterministic")
	}
	vfReach("end")
}

// there and back: a supported non-default level is returned unchanged.
func HarnessC20_RoundTrip() {
	l := sql.IsolationLevel(vfInt("lvl", -1<<62, 1<<62))
	ase, err := ASEIsolationLevelFromGo(l)
	if err == nil && l != sql.LevelDefault {
		for i := 0; i < vfRepeat(300); i++ {
			vfAssert(ase.ToGo() == l, "ToGo(FromGo(l)) == l")
		}
	}
	vfReach("end")
}

// String is the name of ToGo's level and equally deterministic.
func HarnessC20_String() {
	a := ASEIsolationLevel(vfInt("ase", -1<<62, 1<<62))
	for i := 0; i < vfRepeat(300); i++ {
		vfAssert(a.String() == a.String(), "String is deterministic")
	}
	vfReach("end")
}
