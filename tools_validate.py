#!/usr/bin/env python3-vt
import json,jsonschema,glob,sys
m=json.load(open('/verif/MANIFEST.json')); jsonschema.validate(m,json.load(open('/root/.vp/MANIFEST.schema.json')))
props=[json.loads(l)['id'] for l in open('/verif/properties.jsonl')]
claimed=[c['property_id'] for c in m['checks']]
na=[c['property_id'] for c in m.get('not_applicable',[])]
missing=[p for p in props if p not in claimed and p not in na]
print("manifest valid; claimed",len(claimed),"n/a",len(na),"unlisted",missing)
es=json.load(open('/root/.vp/EVIDENCE.schema.json'))
for f in sorted(glob.glob('/verif/evidence/*.json')):
    e=json.load(open(f)); jsonschema.validate(e,es)
    c=e['coverage']; print(f.split('/')[-1], e['tier'], 'states',c['states'],'trans',c['transitions'],'valid',c['traces_validated_against_impl'],'obl',c['obligations'],'/',c['discharged'],'wall',e['wall_s'])
