#!/bin/sh
# debug helper: run one harness worker and summarise
/verif/bin/symgo worker --pkg "$1" --harness "$2" $3 2>&1 | python3 -c "
import json,sys
txt=sys.stdin.read()
i=txt.index('{\"results')
print(txt[:i][-3000:])
d=json.loads(txt[i:])
print('error:',d.get('error'))
for r in d['results'] or []:
    print(r['harness'],'paths',r['paths'],'done',r['done'],'infeas',r['infeasible'],'obl',r['obligations'],r['discharged'],'q',r['queries'],'unk',r['unknown'],'solver %.1f wall %.1f'%(r['solver_s'],r['wall_s']),'reach',r['reach'])
    for o in r['outcomes']: print('  ',o['kind'],'|',o['id'],'|',o['msg'][:400],'|',o.get('known'),o.get('model'))
    print('  notes',r['notes'])
"
