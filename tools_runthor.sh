#!/bin/bash
# runs the thorough tier of every check whose thorough_cmd is (to be) registered
cd /verif
for p in "$@"; do
  s=$(date +%s)
  timeout 5400 ./check $p thorough > /tmp/runall_$p.thorough.out 2>&1; rc=$?
  e=$(( $(date +%s) - s ))
  echo "$p exit=$rc ${e}s $(grep -c '^VIOLATION' /tmp/runall_$p.thorough.out) viol $(grep -c '^KNOWN-FINDING' /tmp/runall_$p.thorough.out) known $(grep -m1 INCONCLUSIVE /tmp/runall_$p.thorough.out | cut -c1-150)"
done
