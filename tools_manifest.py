#!/usr/bin/env python3
"""Generates /verif/MANIFEST.json from the table below (kept here so that the
manifest stays consistent while checks are added)."""
import json

CHECKS = {
 "C20": dict(
  technique="symbolic execution of go/ssa with SMT (z3): level over all 2^64 ints, map iteration order as a symbolic permutation",
  text="Bounded symbolic model checking of the real ASEIsolationLevelFromGo/ToGo/String: the level is a 64-bit symbolic value and every range-over-map iteration order is a symbolic permutation, so the solver decides determinism and the forward/backward tables for all inputs and all orders; no bound other than the source table.",
  note="Trusted: the symgo executor and its map model, z3. database/sql.IsolationLevel.String is executed from its real SSA.",
  ref="DESIGN.md §4 C20"),
}

NOT_APPLICABLE = {
}

props = [json.loads(l)["id"] for l in open("/verif/properties.jsonl")]
checks = []
for p in props:
    if p not in CHECKS:
        continue
    c = CHECKS[p]
    checks.append({
        "property_id": p,
        "quick_cmd": f"./check {p} quick",
        "thorough_cmd": f"./check {p} thorough",
        "evidence_file": f"/verif/evidence/{p}.json",
        "replay_cmd_template": "./bin/symgo replay {path}",
        "engine": "symgo",
        "technique": c["technique"],
        "level_claimed": {"category": "model_checking", "text": c["text"], "design_ref": c["ref"]},
        "level_note": c["note"],
    })
na = []
for p in props:
    if p in CHECKS:
        continue
    na.append({"property_id": p, "reason": NOT_APPLICABLE.get(p, "check not built yet (work in progress; the property is within reach of the technique, see DESIGN.md §4)")})
m = {
 "version": 1,
 "setup_cmd": "cd /verif/engine && GOFLAGS=-mod=mod GOPROXY=off GOSUMDB=off GOTOOLCHAIN=local go build -o /verif/bin/symgo .",
 "hooks": {
  "guard": "verif",
  "enable": "none needed: harnesses and the vf runtime are injected with go/packages Overlay (engine) and go test -overlay (native replay); nothing is written under /repo",
  "baseline_off_cmd": "cd /repo && GOFLAGS=-mod=mod GOPROXY=off go test -vet=off -count=1 ./...",
  "source_commits": [],
  "add_only": True,
 },
 "engines": [{"name": "symgo", "path": "/verif/engine", "serves_properties": sorted(CHECKS),
   "kind_free_text": "bounded symbolic executor for Go: go/ssa of /repo's working tree -> SMT-LIB2 (bit-vectors + uninterpreted functions), z3 -in with push/pop, decision-replay DFS, native replay of counterexamples"}],
 "checks": checks,
 "not_applicable": na,
 "notes": "All checks use one technique: solver-based bounded symbolic execution of the real code (engine/). See DESIGN.md.",
}
json.dump(m, open("/verif/MANIFEST.json", "w"), indent=1, ensure_ascii=False)
print("wrote MANIFEST.json:", len(checks), "checks,", len(na), "not applicable")
