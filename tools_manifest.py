#!/usr/bin/env python3
"""Generates /verif/MANIFEST.json from the table below (kept here so that the
manifest stays consistent while checks are added)."""
import json

CHECKS = {
 "C20": dict(
  technique="symbolic execution of go/ssa with SMT (z3): level over all 2^64 ints, map iteration order as a symbolic permutation",
  text="Bounded symbolic model checking of the real ASEIsolationLevelFromGo/ToGo/String: the level is a 64-bit symbolic value and every range-over-map iteration order is a symbolic permutation, so the solver decides determinism and the forward/backward tables for all inputs and all orders; no bound other than the source table.",
  note="Trusted: the symgo executor and its map model, z3. database/sql.IsolationLevel.String is executed from its real SSA.",
  ref="DESIGN.md §4 C20"),
}

CHECKS["C15"] = dict(
  technique="symbolic execution of go/ssa with SMT (z3): one inductive step of every PacketQueue operation from an arbitrary symbolic queue state, compared with a flat byte-string model",
  text="Bounded symbolic model checking of the real tds/packetQueue.go. Each operation (Bytes, typed reads, String, Read, WriteBytes, typed writes, AddPacket, Position/SetPosition, DiscardUntilCurrentPosition, Reset) is executed once from an arbitrary pre-state satisfying the stated representation invariant (<=3 packets, body lengths 0..600 and contents symbolic, cursor symbolic, packet size 9..600 symbolic and changing) and compared pointwise (skolem index) with the flat FIFO model; bounded histories from the empty queue witness reachability of the invariant. Holds for histories of any length given the invariant.",
  note="Trusted: symgo executor (slices as layered arrays, sync.Mutex model), z3. Bounds: <=3 packets (2 in quick for Bytes), body <=600 bytes, <=3 newly opened packets per write, histories <=3 (quick) / 4 (thorough) operations over packet sizes 9..24. Outside: AllPacketsConsumed/IsEOM with two or more consecutive empty-body packets (degenerate, unreachable through Channel).",
  ref="DESIGN.md §4 C15")

CHECKS["C01"] = dict(
  technique="symbolic execution of go/ssa with SMT (z3, linear integer arithmetic + bit-vectors): one message from an arbitrary channel state with symbolic packet size, lengths, contents and call split; captured transport writes parsed by an independent header decoder",
  text="Bounded symbolic model checking of the real Channel.QueuePackage/SendRemainingPackets/SendPackage/sendPackets/sendPacket, PacketQueue.WriteBytes, NewPacket, Packet.Bytes/WriteTo, PacketHeader.Read. Packet size (256..65535), package lengths, contents, header type, channel id, packet counter and the split over the three send calls are symbolic; the solver decides header length, fullness, EOM placement, message type, channel id, packet numbering, byte-exact content (skolem index) and emptiness of the tx queue for all of them at once, including every exact multiple of the body size. A second message after a symbolic packet-size change shows nothing is carried over.",
  note="Trusted: symgo executor, z3. Bounds: <=2 packages (quick) / 3 (thorough) per message, total length <= 3 packet bodies + 1 (2 in the two-message harness), 2 successive messages. Outside: longer messages, packet-size change in the middle of a message, transport write errors.",
  ref="DESIGN.md §4 C01")

CHECKS["C07"] = dict(
  technique="symbolic execution of go/ssa with SMT (z3): for every token of LookupPackage, N arbitrary (symbolic) bytes; whenever the complete buffer parses, every proper prefix of the consumed bytes must give ErrNotEnoughBytes and the retry must reproduce the package",
  text="Bounded symbolic model checking of every ReadFrom reachable from LookupPackage (28 tokens incl. narrow/wide variants) together with field.go format readers and PacketQueue.Bytes. Relative formulation: the buffer content is fully symbolic, so the solver ranges over all valid encodings of at most N bytes (valid = the parser itself accepts the complete buffer); for each cut position the truncated parse must fail with an error that errors.Is ErrNotEnoughBytes (no success, no other error, no panic) and, after rollback and arrival of the rest, a fresh parse must consume the same bytes and yield a deep-equal package.",
  note="Trusted: symgo executor (errors.Is/fmt.Errorf %w chain model, bytes.Buffer model), z3. Bounds: encodings of at most N bytes per token (N between 2 and 22 in quick, up to 26 in thorough; listed per harness in the evidence), at most 4 format fields; cut positions are case-split by the executor, contents/lengths/field values are decided by the solver. Outside: ROW/PARAMS data (need a preceding format; covered by C02 shapes), TokenlessPackage (no defined end), longer encodings.",
  ref="DESIGN.md §4 C07")

CHECKS["C10"] = dict(
  technique="symbolic execution of go/ssa with SMT (z3): every token followed by N arbitrary symbolic bytes through the real Channel.WritePacket; arbitrary packet headers and chunked streams through Packet.ReadFrom; panics, non-termination and allocation sizes are solver-decided obligations",
  text="Bounded symbolic model checking of the receive path for arbitrary server bytes: for each of the 30 registered tokens and an unregistered one, the token plus up to N arbitrary bytes (content and available length symbolic, EOM symbolic) is fed through Channel.WritePacket -> tryParsePackage -> LookupPackage -> ReadFrom -> field/format readers -> handleSpecialPackage; an arbitrary 8-byte header (incl. Length < 8) with an arbitrary chunked stream goes through Packet.ReadFrom; an ENVCHANGE with an arbitrary decimal packet size is followed by a send. Every index, slice, nil, make, type-assertion and division check of the executed code is an obligation (panic outcome must be infeasible), every loop must terminate inside its unwinding bound, and the sum of all make/append sizes must stay below 2 MiB + 16 x bytes received.",
  note="Trusted: symgo executor, z3; deadlines expire after at most 3 polls (time model). Bounds: N = 3..14 bytes after the token (quick) / up to 24 (thorough), <=4 format fields, <=3 transport chunks. Outside: inputs that need more bytes to reach a crash, value-level decoding (GoValue) of row data (C04/C05), peak heap as measured by the runtime, stack depth. Known finding F-C10-bytes-prealloc (PacketQueue.Bytes allocates a wire-declared 32-bit length before checking availability) is reported as KNOWN-FINDING; any allocation violation at another call site is a new violation.",
  ref="DESIGN.md §4 C10")

CHECKS["C03"] = dict(
  technique="symbolic execution of go/ssa with SMT (z3): inductive step over request/response rounds from an arbitrary inter-round channel state; response grammar, DONE status words, callback outcome symbolic",
  text="Bounded symbolic model checking of the real Channel.WritePacket/tryParsePackage/NextPackage/NextPackageUntil/isDoneFinal. One round starts from the state any earlier history can leave behind (queues empty, lastPkgRx nil / a DONE with any non-final 16-bit status / another package), receives a response drawn from item* lastDONE? (items: RETURNSTATUS, DONE with MORE and arbitrary other bits, EED info/non-info, ENVCHANGE; last DONE with any status without MORE, or absent) in one or two packets, and is read up to the final DONE; a marker response follows. The solver decides: packages in order with the sent values, exactly one DONE with status exactly FINAL (synthesised iff the server's last DONE is absent or carries other bits), nothing left, the next read belongs to the next response; after a failing callback (symbolic position, io.EOF or other error) and with a nil callback the rest is consumed. Three rounds from a fresh channel witness the inter-round invariant.",
  note="Trusted: symgo executor (buffered channel/select model), z3. Bounds: <=2 items (quick) / 3 (thorough) per response, one cut (4 sampled positions quick, 0..12 thorough), 2 rounds inductive + 3-round history. Outside: intermediate DONEs without MORE, zero-length responses (header-only packets, see C02), consumer truly concurrent with the reader (C13).",
  ref="DESIGN.md §4 C03")

CHECKS["C11"] = dict(
  technique="symbolic execution of go/ssa with SMT (z3): responses with symbolic EED status bytes, environment-change types and packet sizes, recording hooks, symbolic callback failure point",
  text="Bounded symbolic model checking of the real handleSpecialPackage, callEEDHooks/callEnvChangeHooks, RegisterEEDHooks/RegisterEnvChangeHooks, EEDError.Add/Is, NextPackageUntil and the EED/ENVCHANGE readers. Responses of up to 2 (quick) / 3 (thorough) items (EED with any status byte, ENVCHANGE with 0..2 members of any type incl. PACKSIZE with a symbolic size, RETURNSTATUS) plus final DONE, delivered in one or two packets, with 0..2 recording hooks of each kind and one hook registered between two responses. Decided: every hook sees every non-informational message and every member exactly once, in order, before the message or any later package is queued; informational messages and environment changes never reach the consumer; packet size applied; a failing callback's error matches the callback's error and carries the messages received so far in order.",
  note="Trusted: symgo executor, z3. Bounds: as stated; one cut (sampled positions in quick). Outside: hooks that re-enter the channel; messages received after the failing callback (the implementation tries to append them but the nil-callback path returns a bare io.EOF; not demanded by the property).",
  ref="DESIGN.md §4 C11")

CHECKS["C02"] = dict(
  technique="symbolic execution of go/ssa with SMT (z3): differential run of the real receive path on one packet vs. two packets for arbitrary symbolic response bytes per leading token; Packet.ReadFrom over symbolically chunked transport reads",
  text="Bounded symbolic model checking in two layers. (a) transport -> packets: Packet.ReadFrom / PacketHeader.ReadFrom over a stream with symbolic header fields, body length and content that the transport hands over in up to 4 reads of symbolic sizes (splitting header and body anywhere): no error, exactly the packet's bytes consumed, header and body as sent. (b) packets -> packages: for each of 21 leading tokens the response is N arbitrary symbolic bytes; it is delivered through Channel.WritePacket once as a single EOM packet and once cut into two packets at every position; whenever the single-packet run raises no parse error, the two-packet run must queue deep-equal packages in the same order, raise no error and apply the same packet size.",
  note="Trusted: symgo executor, z3; layer (a) hands layer (b) exactly the packets on the wire (asserted by (a)). Bounds: response length N = 5..19 bytes after the token (quick) / up to 23 (thorough), one cut (case-split over all positions), <=4 format fields, body <=6/12 bytes and <=4 transport chunks in (a). Outside: two or more cuts, ROW/PARAMS data shapes (their value decoding is covered by C04/C05 harnesses), header-only packets inside a response (delivered as HeaderOnlyPackage by design of WritePacket), TLS.",
  ref="DESIGN.md §4 C02")
CHECKS["C14"] = dict(
  technique="symbolic execution of go/ssa with SMT (z3) including the reader goroutine (coroutine scheduler): transport dying at every byte offset with four failure kinds, symbolic field values, consumer blocking in NextPackage",
  text="Bounded symbolic model checking of Conn.ReadFrom (run as a simulated goroutine), Packet.ReadFrom, PacketHeader.ReadFrom, Channel.WritePacket/tryParsePackage and NextPackage(wait). A packetised response (one or two packets, symbolic values) is served by a transport stub that dies at a case-split byte offset 0..len with one of four failure kinds ((0,EOF), (0,err), (n>0,EOF), (n>0,err)); the consumer reads until it gets an error. Decided: delivered packages are a deep-equal prefix of the undisturbed response, an error follows (no deadlock outcome: the consumer never blocks forever), no final DONE unless the EOM packet was received completely, every package of a completely received packet is delivered; a failing write during a request is reported.",
  note="Trusted: symgo executor and its goroutine/channel/select model (non-preemptive scheduling: a goroutine runs until it blocks), deadline model (expires after at most 3 polls), z3. Bounds: response of 3 (quick) / 4 (thorough) packages, 1-2 packets (2 cut positions quick / 5 thorough), read chunk sizes case-split over {1,3,8,all}. Harness conn error queue has capacity 3 instead of 10. Known findings (reported as KNOWN-FINDING): F-C14-error-overtakes-package, F-C14-data-with-error-dropped. Outside: stalls without error (no read deadline exists in the code), wall-clock time.",
  ref="DESIGN.md §4 C14")

CHECKS["C18"] = dict(
  technique="symbolic execution of go/ssa (z3 for data): operation histories and 2-goroutine interleavings under a preemption bound, with sync.Pool modelled by its contract (any stored item, miss, GC drop chosen by the executor)",
  text="Bounded model checking of the real namepool.Pool/Acquire/Release/(*Name).Release/ID/Name. Sequential histories of up to 5 (quick) / 6 (thorough) operations (acquire, release i via either API, release an already released name again, release nil) with every behaviour the sync.Pool contract allows; two goroutines doing acquire/release/acquire under every interleaving within the preemption bound. Decided: live names have pairwise distinct non-zero ids and texts, text = format applied to id, released names are cleared, double release never hands one id to two holders, no panic.",
  note="Trusted: symgo executor, its sync.Pool / atomic models and its scheduler (sequentially consistent interleavings at Pool, atomic, channel and mutex operations). Bounds: <=6 operations; 2 goroutines, <=2 (quick) / 3 (thorough) preemptions. Outside: more goroutines, real sync.Pool internals, the race detector's verdict.",
  ref="DESIGN.md §4 C18")
CHECKS["C19"] = dict(
  technique="symbolic execution of go/ssa with SMT (z3): all bounds and the version symbolic over an abstract one-byte version domain with a custom comparer",
  text="Bounded symbolic model checking of the real NewCapability, Target.SetCapabilities, VersionRange.contains, DefaultVersion. Versions/bounds are strings of at most one byte (\"\" = no bound, 0xFF = unparseable) compared by a custom VersionComparer; up to 3 (quick) / 4 (thorough) ranges with every bound and the version symbolic. Decided: Has(cap) iff the version lies in some range (lower inclusive, upper exclusive, missing bound unbounded) whenever the input is well-formed; errors exactly for malformed input that is evaluated; capabilities without ranges never reported; result independent of the order of ranges and capabilities.",
  note="Trusted: symgo executor (maps keyed by pointers), z3. Outside: the default comparer VersionCompareSemantic (hashicorp/go-version, regexp based) - assumed to be a total preorder that errs exactly on unparseable input.",
  ref="DESIGN.md §4 C19")

CHECKS["C12"] = dict(
  technique="symbolic execution of go/ssa with SMT (z3) plus bounded schedule exploration (coroutine scheduler, preemption bound) for concurrent channel creation",
  text="Bounded model checking of Conn.NewChannel (setup/PROTACK handshake with a symbolic acknowledgement type), Conn.getValidChannelId, Conn.ReadFrom routing (packets with symbolic channel ids over three registered channels and an unregistered id: delivered to exactly the named channel in order, unknown ids reported on the connection error queue) and, under every interleaving within the preemption bound, two goroutines creating channels concurrently (ids distinct, both registered, both handshakes complete). Outgoing channel id and consecutive packet numbers are decided by C01's harnesses (symbolic id 0..65535 and counter).",
  note="Claimed in part. Trusted: symgo executor and scheduler (interleaving points: mutex/rwmutex, channel, atomic, Pool operations; sequential consistency), z3. Bounds: 2 creating goroutines, <=2 preemptions; 2 (quick) / 3 (thorough) routed packets. Schedule counterexamples are corroborated natively (repetition, finally under the Go race detector). Outside: data races on plain memory accesses (the engine has no happens-before race detector), 4..16 channels, GOMAXPROCS effects.",
  ref="DESIGN.md §4 C12")
CHECKS["C13"] = dict(
  technique="symbolic execution of go/ssa with SMT (z3) incl. RWMutex/channel/select/context models and simulated goroutines; deadlock is an outcome",
  text="Bounded model checking of Channel.Close/NextPackage/NextPackageUntil/QueuePackage/SendRemainingPackets/SendPackage/Reset/WritePacket, sendPackets and Conn.Close. Decided: after Close every method reports ErrChannelClosed (incl. a second Close), sends nothing and delivers nothing; a send with a cancelled own or connection context writes nothing and returns an error wrapping the context error; a receive with a cancelled context returns an already queued package first (queue fill 0..3) and otherwise an error wrapping the context error; Conn.Close closes every channel and the transport and cancels the context; closing the main channel with a peer that never answers the logout returns (deadline model). Two blocking histories are decided as deadlock outcomes and reported as known findings.",
  note="Trusted: symgo executor (RWMutex with writer preference, select as nondeterministic choice among ready cases, deadlines expiring after at most 3 polls), z3. Bounds: <=2 goroutines. Known findings: F-C13-close-blocks-on-full-queue, F-C13-close-blocks-on-waiting-consumer. Outside: wall-clock latency, goroutine counts after Conn.Close, preemptive interleavings of Close with senders.",
  ref="DESIGN.md §4 C13")

CHECKS["C06"] = dict(
  technique="symbolic execution of go/ssa with SMT (z3): write/read round trips of packages with symbolic fields, reader->writer->reader round trips over arbitrary symbolic bytes for format packages, independent encoders/decoders written in the harness",
  text="Bounded symbolic model checking of the WriteTo/ReadFrom pairs of DONE, EED, ERROR, ENVCHANGE, LANGUAGE, DYNAMIC/2, LOGINACK, LOGOUT, MSG, RETURNSTATUS, CAPABILITY (+ valueMask.Bytes/parseValueMask bit layout), CURDECLARE/3, CURINFO/3, CUROPEN, CURFETCH, CURUPDATE, CURDELETE, CURCLOSE, OPTIONCMD with all scalar fields symbolic and string lengths 0..2 (3 thorough), optional parts selected by symbolic flags: written bytes start with the token, dispatch through LookupPackage, read back deep-equal and consume exactly the bytes written. PARAMFMT/PARAMFMT2 over all data types: every package the reader accepts from N arbitrary bytes is re-written, its length field must equal the bytes that follow, and it must read back deep-equal. ROWFMT/ROWFMT2 from an independent encoder (INT4 + VARCHAR columns, symbolic names/status/user type/max length) decode to the sent values.",
  note="Trusted: symgo executor (Real arithmetic for math.Ceil(float64(n)/8) exact on the integers involved), z3. Bounds: strings <=2/3 bytes, <=2 members/columns, format packages <=16..24 bytes and <=4 fields. Outside: strings at the maximum of their length prefix, BLOB formats, PARAMS/ROW data (value codecs: C04/C05), the login record and client-only message layout beyond what C09's harnesses decode.",
  ref="DESIGN.md §4 C06")

CHECKS["C08"] = dict(
  technique="symbolic execution of go/ssa with SMT (z3): the real Channel.Login against symbolic reply scripts queued as packages; crypto and PEM parsing replaced by deterministic stubs",
  text="Bounded symbolic model checking of the real Channel.Login, LoginConfig.pack, rsaEncrypt, generateSymmetricKey and the send path. Reply scripts are queued on the channel as packages: plain flow with symbolic LOGINACK status and 16-bit DONE status; encrypted flow with every checked field symbolic (first acknowledgement status, message id, parameter-format count, parameter count and kinds, asymmetric type, key usable or not, second acknowledgement status, capabilities all-zero or not, final DONE status); the valid encrypted script with one package deleted, replaced or inserted at every position; scripts that stop early with the caller's deadline expiring. Decided: Login returns nil exactly for the valid acceptance, otherwise an error (wrapping the context error when the reply stops early), never a panic or a wait that outlives the context; on success the connection's capability set is the server's and the reply is consumed.",
  note="Package level (byte-level parsing of the replies is C02/C06/C07, composed by assumption). Trusted: symgo executor, z3, crypto stubs (vf_crypto.go: a key is usable iff it is the harness's well-formed PEM key; EncryptOAEP returns an opaque ciphertext; rand.Read returns arbitrary bytes or fails). Bounds: scripts of <=9 packages, single edits. Known finding F-C08-extra-packages-tolerated. Outside: RSA key sizes, real PEM/PKCS#1 parsing, ENVCHANGE(PACKSIZE) during login (C10/C11).",
  ref="DESIGN.md §4 C08")

CHECKS["C09"] = dict(
  technique="symbolic execution of go/ssa with SMT (z3): two-run non-interference of the real Login over two symbolic passwords, with RSA-OAEP replaced by a stub whose ciphertext is independent of its plaintext and whose call log is asserted",
  text="Bounded symbolic model checking of Channel.Login, LoginConfig.pack, writeString, rsaEncrypt, generateSymmetricKey and the whole send path down to the captured transport writes. Two logins with the same configuration, replies and stub outputs but two different symbolic passwords / remote-server passwords (lengths 0..3 quick, 0..5 thorough; arbitrary bytes) must write byte-for-byte identical data (skolem index over every write), reach the same outcome, leave the login record's password slot zero with length 0, and return errors that do not carry the secrets - also on the error exits reached when the reply stops after 4..8 packages or the key is unusable. The EncryptOAEP call log is asserted: one call per secret with plaintext = server nonce followed by the secret, empty label, the server's key; the session key is 32 bytes from one crypto/rand read, encrypted the same way. Control: in the plain flow the password is in its slot.",
  note="Structure only: that OAEP ciphertext decrypts under the server key and is semantically secure is a property of crypto/rsa and is trusted. Trusted: symgo executor, z3, crypto stubs (vf_crypto.go). Capability masks are written in one (insertion) order. Bounds: passwords <=3/5 bytes, <=1 additional remote server. Outside: real RSA key sizes, passwords longer than the bound.",
  ref="DESIGN.md §4 C09")

CHECKS["C16"] = dict(
  technique="symbolic execution of go/ssa with SMT (z3, linear integer arithmetic): precision-many symbolic decimal digits and sign through the real Decimal String/SetString with math/big modelled as mathematical integers",
  text="Bounded symbolic model checking of asetypes.NewDecimal, NewDecimalString, sanity, String, SetString, Cmp. For selected (precision, scale) pairs the magnitude is given by precision-many symbolic digits and a symbolic sign: String() must equal the exact decimal expansion computed from the digits by the harness (optional minus, no leading zeros, point, no trailing zeros, one digit on each side) and parse back to a Cmp-equal decimal. Numerals with symbolic digits, optional sign, point and surrounding spaces: accepted exactly when the significant integer digits fit precision-scale and the significant fraction digits fit the scale, then equal to the written number, otherwise an error. NewDecimal over symbolic precision/scale in -5..60: accepted for 1<=p<=38, 0<=s<=p, rejected for p>38, p<0, s<0, s>p.",
  note="Trusted: symgo executor, its math/big.Int model (Int terms, digit-preserving SetString/Abs/String), strings and fmt.Sprintf(%0Ns) models, z3. Bounds: quick (p,s) in {(1,0),(1,1),(3,1),(5,5),(6,2)} and numerals of <=4+4 digits at (5,2),(4,4); thorough adds (9,3),(8,0),(7,7) and a 5+3 digit numeral at (8,3). Outside: the other (precision, scale) pairs - in particular precisions above 9, where the solver does not finish within the time limit -, exponent syntax, precision 0.",
  ref="DESIGN.md §4 C16")

CHECKS["C04"] = dict(
  technique="symbolic execution of go/ssa with SMT (z3): symbolic values and symbolic wire bytes through the real DataType.Bytes / GoValue (encoding/binary, bytes.Buffer, math/big, time modelled), round trip compared bytewise",
  text="Bounded symbolic model checking of asetypes.DataType.Bytes, GoValue/goValue, ByteSize, Decimal.* and the asetime helpers they call. Decided for all values of the Go type (full-width symbolic): INT1/2/4/8, UINT2/4/8, FLT4/FLT8 (all bit patterns), BIT, the nullable families INTN/UINTN/FLTN for every legal length with NULL = length 0, BINARY/VARBINARY/LONGBINARY/IMAGE and CHAR/VARCHAR/LONGCHAR/TEXT (lengths 0..4, arbitrary bytes), SHORTMONEY (all int32 counts), MONEY (all int64 counts, per direction under C05), DECN/NUMN (sign + 1..4 magnitude bytes): decode(encode(v)) = v and encode(decode(bytes)) = bytes. UNITEXT: every valid UTF-8 text of <=4 (quick) / 6 (thorough) bytes, all planes, without trailing NUL, survives encode+decode (solver-found defect, fixed). DATE: the calendar day is encoded regardless of the time of day for days within 1000 days of 1900-01-01 (solver-found defect for dates before 1900, fixed).",
  note="Claimed in part. Trusted: symgo executor with its encoding/binary, bytes.Buffer, math/big and time.Time models (time: day number + nanoseconds, civil fields related by the days-from-civil formula, month case-split), z3. Temporal types (DATE, TIME, SHORTDATE, DATETIME, BIGDATETIMEN, BIGTIMEN and nullable variants): the composed decode(encode(v)) query is not decided by z3; instead each direction is decided against the reference layout under C05 (harnesses HarnessC05_*Encode / *Decode), and since the reference layout is injective on (day, time of day to the tick) the round trip on the calendar/clock fields follows from the two directions. Outside / not decided: the composed temporal round trip as one query, times in the last half tick of a day for TIME/DATETIME (they round up to 24:00:00), strings longer than 4 bytes (UNITEXT: 4/6 bytes), UNITEXT texts ending in NUL (trimmed by design), the PARAMS/ROW package leg.",
  ref="DESIGN.md §4 C04")
CHECKS["C05"] = dict(
  technique="symbolic execution of go/ssa with SMT (z3): the library's encodings compared bytewise with an independent reference layout written in the harness (shifts, sign byte + big-endian magnitude, high/low money words) for symbolic values and symbolic wire bytes",
  text="Same harness family as C04 with the reference layout as oracle: little-endian two's complement integers of 1/2/4/8 bytes, IEEE bit patterns for FLT4/FLT8, BIT as 0/1, nullable families selecting the width by the length, binary/character data as the bytes themselves, SHORTMONEY as the 32-bit 1/10000 count, MONEY/MONEYN(8) as high word then low word (both directions, all int64 counts, value first), DECN/NUMN as sign byte plus big-endian magnitude, the temporal layouts per direction - DATE/DATEN days since 1900-01-01 (encode: every valid date of the explored centuries, month case-split, year-of-century/day/time of day symbolic, against an independent days-from-civil; decode: all int32 day offsets of years 1..9999), TIME/TIMEN and DATETIME/DATETIMEN ticks (decode within one tick, encode to the nearest tick), SHORTDATE days+minutes (1900..2078), BIGTIMEN and BIGDATETIMEN microseconds since midnight / 0000-01-01 (all microseconds of all days) -, UNITEXT as UTF-16LE (encode: texts of <=4/6 UTF-8 bytes against a reference encoder written from the UTF-16 definition; decode: 1-2 arbitrary code units incl. surrogate pairs) - decided in both directions (value -> prescribed bytes, prescribed bytes -> value) for all values within the stated bounds.",
  note="Claimed in part. Trusted and outside: as C04; dates: quick explores the centuries 00,03,15,17,18,19,20,99 (all 100 in thorough), all months, every year of the century and day symbolic; the time model (package time: day number + nanoseconds, AddDate/Add/Unix linear, civil fields of time.Date kept) is trusted and cross-checked natively. The calendar helpers (TimeToMicroseconds/MicrosecondsToTime/DurationFromDateTime agreeing with the proleptic Gregorian calendar for years 1..9999), and the big-endian byte order setting are not decided (TimeToMicroseconds/MicrosecondsToTime compute in uint64: 64-bit bit-vector multiplication/division by 86400000000 is not decided by z3 within 60 s; kept as Undecided* functions, not run); UNITEXT: unpaired surrogates and texts beyond the stated lengths are outside.",
  ref="DESIGN.md §4 C05")

CHECKS["C17"] = dict(
  technique="symbolic execution of go/ssa with SMT (z3): arbitrary symbolic DSN bytes through the real ParseSimple/Parse/ParseURI, FormatSimple/FormatURI followed by the parser for symbolic field values; the real net/url runs from its SSA, reflect is an engine model cross-checked natively",
  text="Bounded symbolic model checking of the real dsn.ParseSimple, FormatSimple, Parse, ParseURI, FormatURI, TagToField/tagToField and setValue together with the real net/url (Parse, URL.String, Values.Encode, ParseQuery, escaping) executed from SSA. Simple form: N<=9 (quick) / 12 (thorough) arbitrary bytes never panic; any key of <=4 bytes that is no tag or alias is rejected; for every text field a later key or alias overrides; FormatSimple->ParseSimple round trip for texts of <=3/4 printable-ASCII bytes without quotes and backslashes (spaces and '=' anywhere), ints of <=4 digits incl. negatives, bools, embedded and named structs. URI form: a:// followed by <=2/3 arbitrary ASCII bytes and a://h:1/? followed by <=3/4 arbitrary ASCII bytes never panic; unknown query keys are rejected and the last value of a repeated key wins (keys of <=4 letters); FormatURI->Parse round trip with one of user/password/database/property carrying <=1/2 arbitrary bytes (all 256 values) or a symbolic bool and int, and with all four texts at once over upper-case letters (<=2,2,4,4).",
  note="Claimed in part. Trusted: symgo executor, z3, the engine's reflect model (typed cell references; types and tags from go/types) - cross-checked against the real reflect by the native witness runs of every harness -, models of strings.Builder/bytealg helpers/%q/ParseInt. Outside: texts longer than the stated bounds, non-ASCII bytes where net/url ranges over runes, FromEnv (process environment), scheme/host/port texts in the URI form, target struct kinds that setValue rejects.",
  ref="DESIGN.md §4 C17")

NOT_APPLICABLE = {}

# thorough tiers that were run clean on the unchanged tree; the others are quick only
THOROUGH_OK = {"C17", "C01", "C03", "C04", "C05", "C06", "C07", "C08", "C09", "C12", "C13", "C14", "C15", "C16", "C18", "C19", "C20"}

props = [json.loads(l)["id"] for l in open("/verif/properties.jsonl")]
checks = []
for p in props:
    if p not in CHECKS:
        continue
    c = CHECKS[p]
    entry_thorough = {"thorough_cmd": f"./check {p} thorough"} if p in THOROUGH_OK else {}
    checks.append({
        "property_id": p,
        "quick_cmd": f"./check {p} quick",
        **entry_thorough,
        "evidence_file": f"/verif/evidence/{p}.json",
        "replay_cmd_template": "./bin/symgo replay {path}",
        "engine": "symgo",
        "technique": c["technique"],
        "level_claimed": {"category": "model_checking", "text": c["text"], "design_ref": c["ref"]},
        "level_note": c["note"],
    })
na = []
for p in props:
    if p in CHECKS:
        continue
    na.append({"property_id": p, "reason": NOT_APPLICABLE.get(p, "check not built yet (work in progress; the property is within reach of the technique, see DESIGN.md §4)")})
m = {
 "version": 1,
 "setup_cmd": "cd /verif/engine && GOFLAGS=-mod=mod GOPROXY=off GOSUMDB=off GOTOOLCHAIN=local go build -o /verif/bin/symgo .",
 "hooks": {
  "guard": "verif",
  "enable": "none needed: harnesses and the vf runtime are injected with go/packages Overlay (engine) and go test -overlay (native replay); nothing is written under /repo",
  "baseline_off_cmd": "cd /repo && GOFLAGS=-mod=mod GOPROXY=off go test -vet=off -count=1 ./...",
  "source_commits": [],
  "add_only": True,
 },
 "engines": [{"name": "symgo", "path": "/verif/engine", "serves_properties": sorted(CHECKS),
   "kind_free_text": "bounded symbolic executor for Go: go/ssa of /repo's working tree -> SMT-LIB2 (bit-vectors + uninterpreted functions), z3 -in with push/pop, decision-replay DFS, native replay of counterexamples"}],
 "checks": checks,
 "not_applicable": na,
 "notes": "All checks use one technique: solver-based bounded symbolic execution of the real code (engine/). See DESIGN.md.",
}
json.dump(m, open("/verif/MANIFEST.json", "w"), indent=1, ensure_ascii=False)
print("wrote MANIFEST.json:", len(checks), "checks,", len(na), "not applicable")
